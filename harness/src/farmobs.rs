//! Complete views of the farm manager's collections, decoded from raw contract storage (the
//! smart queries are paginated and capped at 10 positions), plus helpers for the epoch manager.

use std::collections::BTreeMap;

use cosmwasm_std::{from_json, Addr};
use mantra_dex_std::farm_manager as fm;
use mantra_dex_std::farm_manager::{Farm, Position};

use crate::world::World;

fn ns(name: &str) -> Vec<u8> {
    let mut v = vec![(name.len() >> 8) as u8, (name.len() & 0xff) as u8];
    v.extend_from_slice(name.as_bytes());
    v
}

pub fn all_positions(w: &World) -> BTreeMap<String, Position> {
    let pre = ns("positions");
    let mut m = BTreeMap::new();
    for (k, v) in w.app.dump_wasm_raw(&w.fm) {
        if k.starts_with(&pre) {
            if let Ok(p) = from_json::<Position>(&v) {
                let id = String::from_utf8_lossy(&k[pre.len()..]).to_string();
                m.insert(id, p);
            }
        }
    }
    m
}

pub fn all_farms(w: &World) -> BTreeMap<String, Farm> {
    let pre = ns("farms");
    let mut m = BTreeMap::new();
    for (k, v) in w.app.dump_wasm_raw(&w.fm) {
        if k.starts_with(&pre) {
            if let Ok(f) = from_json::<Farm>(&v) {
                let id = String::from_utf8_lossy(&k[pre.len()..]).to_string();
                m.insert(id, f);
            }
        }
    }
    m
}

/// (address, lp denom) -> epoch -> weight, every snapshot in storage
pub fn all_weights(w: &World) -> BTreeMap<(String, String), BTreeMap<u64, u128>> {
    let pre = ns("lp_weight_history");
    let mut m: BTreeMap<(String, String), BTreeMap<u64, u128>> = BTreeMap::new();
    for (k, v) in w.app.dump_wasm_raw(&w.fm) {
        if !k.starts_with(&pre) {
            continue;
        }
        let rest = &k[pre.len()..];
        // len(addr) addr len(denom) denom epoch(8, big endian)
        if rest.len() < 2 {
            continue;
        }
        let la = ((rest[0] as usize) << 8) | rest[1] as usize;
        if rest.len() < 2 + la + 2 {
            continue;
        }
        let addr = String::from_utf8_lossy(&rest[2..2 + la]).to_string();
        let r2 = &rest[2 + la..];
        let ld = ((r2[0] as usize) << 8) | r2[1] as usize;
        if r2.len() != 2 + ld + 8 {
            continue;
        }
        let denom = String::from_utf8_lossy(&r2[2..2 + ld]).to_string();
        let mut e = [0u8; 8];
        e.copy_from_slice(&r2[2 + ld..]);
        let epoch = u64::from_be_bytes(e);
        if let Ok(wt) = from_json::<cosmwasm_std::Uint128>(&v) {
            m.entry((addr, denom)).or_default().insert(epoch, wt.u128());
        }
    }
    m
}

pub fn last_claimed(w: &World) -> BTreeMap<String, u64> {
    let pre = ns("last_claimed_epoch");
    let mut m = BTreeMap::new();
    for (k, v) in w.app.dump_wasm_raw(&w.fm) {
        if k.starts_with(&pre) {
            if let Ok(e) = from_json::<u64>(&v) {
                m.insert(String::from_utf8_lossy(&k[pre.len()..]).to_string(), e);
            }
        }
    }
    m
}

pub fn fm_config(w: &World) -> fm::Config {
    w.query(&w.fm, &fm::QueryMsg::Config {}).expect("fm config")
}

pub fn current_epoch(w: &World) -> Option<u64> {
    let r: Result<mantra_dex_std::epoch_manager::EpochResponse, String> =
        w.query(&w.em, &mantra_dex_std::epoch_manager::QueryMsg::CurrentEpoch {});
    r.ok().map(|e| e.epoch.id)
}

/// weight in effect at `epoch` = latest snapshot at or before it
pub fn weight_at(h: Option<&BTreeMap<u64, u128>>, epoch: u64) -> u128 {
    match h {
        Some(m) => m.range(..=epoch).next_back().map(|(_, w)| *w).unwrap_or(0),
        None => 0,
    }
}

pub fn positions_of(w: &World, who: &Addr) -> Vec<Position> {
    all_positions(w).into_values().filter(|p| p.receiver == *who).collect()
}
