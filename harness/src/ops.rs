//! Operations (one chain transaction each), observations of the public state, and the
//! monitor/driver plumbing shared by all workloads.

use std::collections::BTreeMap;

use cosmwasm_std::{Addr, Coin};
use mantra_dex_std::farm_manager as fm;
use mantra_dex_std::pool_manager as pm;
use mantra_dex_std::pool_manager::{PoolInfo, PoolInfoResponse, PoolsResponse};
use serde::Serialize;
use serde_json::{json, Value};

use crate::report::Reporter;
use crate::world::{Outcome, Snap, World};

#[derive(Clone, Debug, Serialize)]
pub enum Op {
    Pm {
        sender: Addr,
        msg: pm::ExecuteMsg,
        funds: Vec<Coin>,
    },
    Fm {
        sender: Addr,
        msg: fm::ExecuteMsg,
        funds: Vec<Coin>,
    },
    Em {
        sender: Addr,
        msg: mantra_dex_std::epoch_manager::ExecuteMsg,
        funds: Vec<Coin>,
    },
    Fc {
        sender: Addr,
        msg: mantra_dex_std::fee_collector::ExecuteMsg,
        funds: Vec<Coin>,
    },
    Send {
        from: Addr,
        to: Addr,
        coins: Vec<Coin>,
    },
    Advance {
        secs: u64,
    },
}

impl Op {
    pub fn sender(&self) -> Option<&Addr> {
        match self {
            Op::Pm { sender, .. } | Op::Fm { sender, .. } | Op::Em { sender, .. } | Op::Fc { sender, .. } => {
                Some(sender)
            }
            Op::Send { from, .. } => Some(from),
            Op::Advance { .. } => None,
        }
    }
    pub fn funds(&self) -> &[Coin] {
        match self {
            Op::Pm { funds, .. } | Op::Fm { funds, .. } | Op::Em { funds, .. } | Op::Fc { funds, .. } => funds,
            Op::Send { coins, .. } => coins,
            Op::Advance { .. } => &[],
        }
    }
    pub fn kind(&self) -> &'static str {
        match self {
            Op::Pm { msg, .. } => match msg {
                pm::ExecuteMsg::CreatePool { .. } => "pm.create_pool",
                pm::ExecuteMsg::ProvideLiquidity { .. } => "pm.provide_liquidity",
                pm::ExecuteMsg::Swap { .. } => "pm.swap",
                pm::ExecuteMsg::WithdrawLiquidity { .. } => "pm.withdraw_liquidity",
                pm::ExecuteMsg::ExecuteSwapOperations { .. } => "pm.execute_swap_operations",
                pm::ExecuteMsg::UpdateConfig { .. } => "pm.update_config",
                pm::ExecuteMsg::UpdateOwnership(_) => "pm.update_ownership",
            },
            Op::Fm { msg, .. } => match msg {
                fm::ExecuteMsg::ManageFarm { action } => match action {
                    fm::FarmAction::Create { .. } => "fm.farm_create",
                    fm::FarmAction::Expand { .. } => "fm.farm_expand",
                    fm::FarmAction::Close { .. } => "fm.farm_close",
                },
                fm::ExecuteMsg::ManagePosition { action } => match action {
                    fm::PositionAction::Create { .. } => "fm.position_create",
                    fm::PositionAction::Expand { .. } => "fm.position_expand",
                    fm::PositionAction::Close { .. } => "fm.position_close",
                    fm::PositionAction::Withdraw { .. } => "fm.position_withdraw",
                },
                fm::ExecuteMsg::Claim { .. } => "fm.claim",
                fm::ExecuteMsg::UpdateConfig { .. } => "fm.update_config",
                fm::ExecuteMsg::UpdateOwnership(_) => "fm.update_ownership",
            },
            Op::Em { .. } => "em.exec",
            Op::Fc { .. } => "fc.exec",
            Op::Send { .. } => "bank.send",
            Op::Advance { .. } => "advance_time",
        }
    }
    pub fn to_json(&self, w: &World) -> Value {
        let nm = |a: &Addr| w.name_of(a.as_str());
        match self {
            Op::Pm { sender, msg, funds } => json!({"to":"pool_manager","sender":nm(sender),"msg":msg,"funds":funds}),
            Op::Fm { sender, msg, funds } => json!({"to":"farm_manager","sender":nm(sender),"msg":msg,"funds":funds}),
            Op::Em { sender, msg, funds } => json!({"to":"epoch_manager","sender":nm(sender),"msg":msg,"funds":funds}),
            Op::Fc { sender, msg, funds } => json!({"to":"fee_collector","sender":nm(sender),"msg":msg,"funds":funds}),
            Op::Send { from, to, coins } => json!({"bank_send":{"from":nm(from),"to":nm(to),"coins":coins}}),
            Op::Advance { secs } => json!({"advance_secs":secs}),
        }
    }
}

impl World {
    pub fn apply(&mut self, op: &Op) -> Outcome {
        match op {
            Op::Pm { sender, msg, funds } => {
                let c = self.pm.clone();
                self.exec(sender, &c, msg, funds)
            }
            Op::Fm { sender, msg, funds } => {
                let c = self.fm.clone();
                self.exec(sender, &c, msg, funds)
            }
            Op::Em { sender, msg, funds } => {
                let c = self.em.clone();
                self.exec(sender, &c, msg, funds)
            }
            Op::Fc { sender, msg, funds } => {
                let c = self.fc.clone();
                self.exec(sender, &c, msg, funds)
            }
            Op::Send { from, to, coins } => self.bank_send(from, to, coins),
            Op::Advance { secs } => {
                self.advance(*secs);
                Outcome::Ok {
                    events: vec![],
                    data: None,
                    log: vec![],
                    calls: vec![],
                }
            }
        }
    }
}

// ---------------------------------------------------------------------------------------------
// observation of the public state at a quiescent point

#[derive(Clone, Debug)]
pub struct PoolView {
    pub info: PoolInfo,
    pub supply: u128,
}

impl PoolView {
    pub fn reserve(&self, denom: &str) -> u128 {
        self.info
            .assets
            .iter()
            .find(|c| c.denom == denom)
            .map(|c| c.amount.u128())
            .unwrap_or(0)
    }
    pub fn reserves(&self) -> Vec<u128> {
        self.info.assets.iter().map(|c| c.amount.u128()).collect()
    }
    pub fn index_of(&self, denom: &str) -> Option<usize> {
        self.info.assets.iter().position(|c| c.denom == denom)
    }
    /// index of `denom` in the creation-time order (the order `asset_decimals` refers to)
    pub fn canon_index(&self, denom: &str) -> Option<usize> {
        self.info.asset_denoms.iter().position(|d| d == denom)
    }
    /// reserves given as (denom, amount) pairs -> amounts in creation-time order
    pub fn canon(&self, res: &[(String, u128)]) -> Vec<u128> {
        self.info
            .asset_denoms
            .iter()
            .map(|d| res.iter().find(|(k, _)| k == d).map(|(_, a)| *a).unwrap_or(0))
            .collect()
    }
    /// current reserves in creation-time order
    pub fn canon_reserves(&self) -> Vec<u128> {
        self.info.asset_denoms.iter().map(|d| self.reserve(d)).collect()
    }
    pub fn decimals_of(&self, denom: &str) -> Option<u8> {
        self.canon_index(denom).and_then(|i| self.info.asset_decimals.get(i).copied())
    }
    pub fn is_cp(&self) -> bool {
        matches!(self.info.pool_type, pm::PoolType::ConstantProduct)
    }
    pub fn amp(&self) -> Option<u64> {
        match self.info.pool_type {
            pm::PoolType::StableSwap { amp } => Some(amp),
            _ => None,
        }
    }
    pub fn funded(&self) -> bool {
        self.info.assets.iter().all(|c| !c.amount.is_zero())
    }
}

#[derive(Clone, Debug, Default)]
pub struct Obs {
    pub pools: BTreeMap<String, PoolView>,
    /// address -> denom -> amount, for every account the harness knows
    pub bal: BTreeMap<String, BTreeMap<String, u128>>,
    pub time: u64,
    /// the fee collector the pool manager's configuration names
    pub pm_fc: String,
}

impl Obs {
    pub fn bal(&self, addr: &Addr, denom: &str) -> u128 {
        self.bal
            .get(addr.as_str())
            .and_then(|m| m.get(denom))
            .copied()
            .unwrap_or(0)
    }
    /// total of `denom` over all known accounts
    pub fn total(&self, denom: &str) -> u128 {
        self.bal.values().map(|m| m.get(denom).copied().unwrap_or(0)).sum()
    }
}

pub fn all_pools(w: &World) -> Result<Vec<PoolInfoResponse>, String> {
    let mut out: Vec<PoolInfoResponse> = vec![];
    let mut start_after: Option<String> = None;
    loop {
        let r: PoolsResponse = w.query(
            &w.pm,
            &pm::QueryMsg::Pools {
                pool_identifier: None,
                start_after: start_after.clone(),
                limit: Some(100),
            },
        )?;
        let n = r.pools.len();
        if n == 0 {
            break;
        }
        start_after = Some(r.pools.last().unwrap().pool_info.pool_identifier.clone());
        out.extend(r.pools);
        if n < 100 {
            break;
        }
    }
    Ok(out)
}

pub fn observe(w: &World) -> Obs {
    let mut o = Obs::default();
    o.pm_fc = w.query::<mantra_dex_std::pool_manager::Config, _>(&w.pm, &mantra_dex_std::pool_manager::QueryMsg::Config {}).map(|c| c.fee_collector_addr.to_string()).unwrap_or_default();
    match all_pools(w) {
        Ok(ps) => {
            for p in ps {
                o.pools.insert(
                    p.pool_info.pool_identifier.clone(),
                    PoolView {
                        supply: p.total_share.amount.u128(),
                        info: p.pool_info,
                    },
                );
            }
        }
        Err(e) => panic!("harness: Pools query failed: {e}"),
    }
    for a in w.accounts() {
        o.bal.insert(a.to_string(), w.balances(&a));
    }
    o.time = w.now();
    o
}

// ---------------------------------------------------------------------------------------------
// monitors and driver

pub struct Step<'a> {
    pub idx: usize,
    pub op: &'a Op,
    pub pre_snap: &'a Snap,
    pub pre: &'a Obs,
    pub out: &'a Outcome,
    pub post: &'a Obs,
    pub fpre: &'a crate::wfarm::FObs,
    pub fpost: &'a crate::wfarm::FObs,
}

pub trait Monitor {
    /// called once, on the freshly built world
    fn init(&mut self, _w: &mut World, _rep: &mut Reporter) {}
    /// after every transaction; the monitor may fork (snapshot/restore) but must leave the
    /// world exactly in the post state.
    fn step(&mut self, w: &mut World, s: &Step, rep: &mut Reporter);
    /// end of the workload
    fn finish(&mut self, _w: &mut World, _rep: &mut Reporter) {}
}

/// Recent history kept for witnesses
pub struct History {
    pub ops: Vec<Value>,
    pub cap: usize,
    pub total: usize,
}

impl History {
    pub fn new(cap: usize) -> History {
        History {
            ops: vec![],
            cap,
            total: 0,
        }
    }
    pub fn push(&mut self, v: Value) {
        self.total += 1;
        self.ops.push(v);
        if self.ops.len() > self.cap {
            let d = self.ops.len() - self.cap;
            self.ops.drain(0..d);
        }
    }
    pub fn tail(&self, n: usize) -> Vec<Value> {
        let k = self.ops.len().saturating_sub(n);
        self.ops[k..].to_vec()
    }
}

thread_local! {
    pub static HISTORY: std::cell::RefCell<History> = std::cell::RefCell::new(History::new(40));
    pub static CTX: std::cell::RefCell<String> = std::cell::RefCell::new(String::new());
}

pub fn witness(extra: Value) -> Value {
    let tail = HISTORY.with(|h| h.borrow().tail(12));
    let total = HISTORY.with(|h| h.borrow().total);
    let ctx = CTX.with(|c| c.borrow().clone());
    json!({"context": ctx, "step": total, "last_ops": tail, "observed": extra})
}

pub fn set_ctx(s: String) {
    CTX.with(|c| *c.borrow_mut() = s);
    HISTORY.with(|h| *h.borrow_mut() = History::new(40));
}

/// Apply one op with full observation and feed all monitors.
pub fn drive_one(
    w: &mut World,
    op: &Op,
    idx: usize,
    pre: &mut Obs,
    fpre: &mut crate::wfarm::FObs,
    monitors: &mut [Box<dyn Monitor>],
    rep: &mut Reporter,
) -> Outcome {
    let pre_snap = w.snapshot();
    let out = w.apply(op);
    let post = observe(w);
    let fpost = crate::wfarm::fobserve(w);
    HISTORY.with(|h| {
        h.borrow_mut().push(json!({"i": idx, "op": op.to_json(w), "result": out.short()}))
    });
    rep.gcount(&format!("op.{}.{}", op.kind(), if out.is_ok() { "ok" } else if out.is_abort() { "abort" } else { "rejected" }));
    if let Some(m) = out.err_msg() {
        rep.gcount(&format!("why.{}.{}", op.kind(), err_class(m)));
    }
    {
        let s = Step {
            idx,
            op,
            pre_snap: &pre_snap,
            pre,
            out: &out,
            post: &post,
            fpre,
            fpost: &fpost,
        };
        for m in monitors.iter_mut() {
            m.step(w, &s, rep);
        }
    }
    *pre = post;
    *fpre = fpost;
    out
}

/// coarse class of an error message (for the evidence histogram only)
pub fn err_class(m: &str) -> String {
    let cleaned: String = m
        .chars()
        .map(|c| if c.is_ascii_digit() { '#' } else { c })
        .collect();
    let mut out = String::new();
    let mut prev_hash = false;
    for c in cleaned.chars() {
        if c == '#' {
            if !prev_hash {
                out.push('#');
            }
            prev_hash = true;
        } else {
            prev_hash = false;
            out.push(c);
        }
    }
    crate::world::trunc(&out, 60)
}
