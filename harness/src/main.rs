//! mdx-check: runtime monitors for the mantra-dex properties C01..C20.

mod exact;
mod farmobs;
mod ledger;
mod ops;
mod pinned;
mod poolev;
mod ssx;
mod props;
mod report;
mod world;
mod wfarm;
mod wpool;

use std::time::Instant;

use report::Reporter;

pub fn verif_dir() -> String {
    std::env::var("VERIF_DIR").unwrap_or_else(|_| "/verif".to_string())
}

#[derive(Clone, Debug)]
pub struct RunCfg {
    pub property: String,
    pub tier: String,
    pub seed: u64,
    pub threads: usize,
}

impl RunCfg {
    pub fn thorough(&self) -> bool {
        self.tier == "thorough"
    }
    /// quick value / thorough value
    pub fn pick<T>(&self, q: T, t: T) -> T {
        if self.thorough() {
            t
        } else {
            q
        }
    }
}

/// Run `n_shards` independent shards on up to `threads` OS threads; each shard builds its own
/// world (worlds are not Send) and returns its reporter.
pub fn run_shards<F>(cfg: &RunCfg, n_shards: usize, f: F) -> Reporter
where
    F: Fn(usize) -> Reporter + Send + Sync,
{
    let mut merged = Reporter::new(&cfg.property);
    let next = std::sync::atomic::AtomicUsize::new(0);
    let results = std::sync::Mutex::new(Vec::<(usize, Reporter)>::new());
    std::thread::scope(|sc| {
        for _ in 0..cfg.threads.min(n_shards).max(1) {
            sc.spawn(|| loop {
                let i = next.fetch_add(1, std::sync::atomic::Ordering::SeqCst);
                if i >= n_shards {
                    break;
                }
                let r = std::panic::catch_unwind(std::panic::AssertUnwindSafe(|| f(i)));
                match r {
                    Ok(rep) => results.lock().unwrap().push((i, rep)),
                    Err(p) => {
                        let msg = if let Some(s) = p.downcast_ref::<&str>() {
                            s.to_string()
                        } else if let Some(s) = p.downcast_ref::<String>() {
                            s.clone()
                        } else {
                            "panic".into()
                        };
                        let mut rep = Reporter::new("");
                        rep.inconclusive(format!("harness error in shard {i}: {msg}"));
                        results.lock().unwrap().push((i, rep));
                    }
                }
            });
        }
    });
    let mut v = results.into_inner().unwrap();
    v.sort_by_key(|(i, _)| *i);
    for (_, r) in v {
        merged.merge(r);
    }
    merged
}

// Reporter must be Send to cross the thread boundary: it only holds owned data.
fn _assert_send<T: Send>() {}
#[allow(dead_code)]
fn _check() {
    _assert_send::<Reporter>();
}

fn usage() -> ! {
    eprintln!("usage: mdx-check check <C01..C20> [--tier quick|thorough] [--seed N]");
    std::process::exit(2)
}

fn main() {
    // contracts abort (panic) on some inputs; those are observed as failed transactions, the
    // default hook would only spam stderr.
    let verbose = std::env::var("VERIF_VERBOSE").is_ok();
    std::panic::set_hook(Box::new(move |info| {
        if verbose {
            eprintln!("panic: {info}");
        }
    }));

    let args: Vec<String> = std::env::args().collect();
    if args.len() >= 2 && args[1] == "pinned" {
        for (id, f) in pinned::all() {
            let r = std::panic::catch_unwind(f);
            println!("{id}: {r:?}");
        }
        return;
    }
    if args.len() >= 5 && args[1] == "dcalc" {
        // debugging aid: dcalc <amp> <decimals,comma> <reserves,comma> -> contract mint-path D vs exact D
        let amp: u64 = args[2].parse().unwrap();
        let decs: Vec<u8> = args[3].split(',').map(|x| x.parse().unwrap()).collect();
        let res: Vec<u128> = args[4].split(',').map(|x| x.parse().unwrap()).collect();
        println!("{}", props::c19::dcalc(amp, &decs, &res));
        return;
    }
    if args.len() >= 8 && args[1] == "mintcalc" {
        // debugging aid: mintcalc <amp> <decimals> <old reserves> <new reserves> <supply> <swap fee bps>
        let amp: u64 = args[2].parse().unwrap();
        let decs: Vec<u8> = args[3].split(',').map(|x| x.parse().unwrap()).collect();
        let old: Vec<u128> = args[4].split(',').map(|x| x.parse().unwrap()).collect();
        let new: Vec<u128> = args[5].split(',').map(|x| x.parse().unwrap()).collect();
        let supply: u128 = args[6].parse().unwrap();
        let fee: u64 = args[7].parse().unwrap();
        println!("{}", props::c19::mintcalc(amp, &decs, &old, &new, supply, fee));
        return;
    }
    if args.len() < 3 || args[1] != "check" {
        usage();
    }
    let property = args[2].clone();
    let mut tier = std::env::var("VERIF_TIER").unwrap_or_else(|_| "quick".into());
    let mut seed: u64 = std::env::var("VERIF_SEED")
        .ok()
        .and_then(|s| s.parse().ok())
        .unwrap_or(1);
    let mut i = 3;
    while i < args.len() {
        match args[i].as_str() {
            "--tier" => {
                tier = args.get(i + 1).cloned().unwrap_or_else(|| usage());
                i += 2;
            }
            "--seed" => {
                seed = args.get(i + 1).and_then(|s| s.parse().ok()).unwrap_or_else(|| usage());
                i += 2;
            }
            _ => usage(),
        }
    }
    if tier != "quick" && tier != "thorough" {
        usage();
    }
    let threads = std::env::var("VERIF_THREADS")
        .ok()
        .and_then(|s| s.parse().ok())
        .unwrap_or(16);
    let cfg = RunCfg {
        property: property.clone(),
        tier,
        seed,
        threads,
    };
    let t0 = Instant::now();
    let code = props::run(&cfg, t0);
    std::process::exit(code);
}
