//! An independent per-epoch weight/claim ledger for C06 / C07.  It is fed only by the observed
//! effect of position operations (the snapshot the contract writes for the next epoch) and by
//! the harness's own record of successful claims; the contract's claim path and the way it
//! rewrites a user's history never touch it.

use std::collections::{BTreeMap, BTreeSet};

use mantra_dex_std::farm_manager::Farm;
use num_bigint::BigInt;
use num_integer::Integer;

use crate::exact::bi;
use crate::farmobs::weight_at;
use crate::wfarm::FObs;

#[derive(Default, Clone)]
pub struct Ledger {
    /// (user, lp) -> epoch -> weight in effect from that epoch on
    pub w: BTreeMap<(String, String), BTreeMap<u64, u128>>,
    /// last epoch a user has successfully claimed (cleared when the user has no open position)
    pub last: BTreeMap<String, u64>,
}

impl Ledger {
    /// call after every successful message; `fm` is the farm manager's own address
    pub fn observe_op(&mut self, fm: &str, pre: &FObs, post: &FObs) {
        let cur = match pre.epoch {
            Some(c) => c,
            None => return,
        };
        let keys: BTreeSet<&(String, String)> = pre.weights.keys().chain(post.weights.keys()).filter(|(a, _)| a != fm).collect();
        for k in keys {
            let before = pre.weights.get(k);
            let after = post.weights.get(k);
            match (before, after) {
                (_, Some(a)) => {
                    // a position operation writes the snapshot for the next epoch
                    let nb = before.and_then(|b| b.get(&(cur + 1)));
                    let na = a.get(&(cur + 1));
                    if na != nb {
                        if let Some(x) = na {
                            self.w.entry(k.clone()).or_default().insert(cur + 1, *x);
                        }
                    }
                }
                (Some(_), None) => {
                    // left the LP token entirely: whatever was not claimed before is forfeited
                    // (a normal close requires claiming first; an emergency exit gives the
                    // pending rewards up), so the whole timeline is dropped
                    let e = self.w.entry(k.clone()).or_default();
                    e.clear();
                    e.insert(0, 0);
                }
                (None, None) => {}
            }
        }
        // users without any open position have no claim cursor
        let mut open: BTreeSet<String> = BTreeSet::new();
        for p in post.positions.values() {
            if p.open {
                open.insert(p.receiver.to_string());
            }
        }
        self.last.retain(|u, _| open.contains(u));
    }

    pub fn record_claim(&mut self, user: &str, until: u64) {
        self.last.insert(user.to_string(), until);
    }

    pub fn weight(&self, user: &str, lp: &str, epoch: u64) -> u128 {
        weight_at(self.w.get(&(user.to_string(), lp.to_string())), epoch)
    }

    pub fn sum_users(&self, lp: &str, epoch: u64) -> u128 {
        self.w.iter().filter(|((_, d), _)| d == lp).map(|(_, h)| weight_at(Some(h), epoch)).sum()
    }
}

/// epochs of `farm` that fall in (after, until]
pub fn farm_epochs(farm: &Farm, after: Option<u64>, until: u64) -> Vec<u64> {
    let lo = match after {
        Some(a) => (a + 1).max(farm.start_epoch),
        None => farm.start_epoch,
    };
    let hi = until.min(farm.preliminary_end_epoch.saturating_sub(1));
    if farm.preliminary_end_epoch == 0 || lo > hi {
        return vec![];
    }
    (lo..=hi).collect()
}

pub struct Rightful {
    /// sum over farm-epochs of floor(rate * w_u / max(W, sum_v w_v)) per reward denom
    pub capped: BTreeMap<String, BigInt>,
    /// sum of floor(rate * w_u / W) with W the contract's total (what the statement of C07 names)
    pub by_total_floor: BTreeMap<String, BigInt>,
    /// number of farm-epochs with a non-zero share, per reward denom
    pub farm_epochs: BTreeMap<String, u64>,
    /// per farm: what this claim should add to `claimed`
    pub per_farm: BTreeMap<String, BigInt>,
}

/// what `user` is owed for epochs (after, until] by the farms in `pre`
pub fn rightful(l: &Ledger, fm: &str, pre: &FObs, user: &str, after: Option<u64>, until: u64) -> Rightful {
    let mut r = Rightful {
        capped: BTreeMap::new(),
        by_total_floor: BTreeMap::new(),
        farm_epochs: BTreeMap::new(),
        per_farm: BTreeMap::new(),
    };
    // the claim only looks at LP tokens in which the user has an open position
    let open_lps: BTreeSet<String> = pre.positions.values().filter(|p| p.open && p.receiver.as_str() == user).map(|p| p.lp_asset.denom.clone()).collect();
    for f in pre.farms.values() {
        if !open_lps.contains(&f.lp_denom) {
            continue;
        }
        let totals = pre.weights.get(&(fm.to_string(), f.lp_denom.clone()));
        for e in farm_epochs(f, after, until) {
            let wu = l.weight(user, &f.lp_denom, e);
            if wu == 0 {
                continue;
            }
            let total = weight_at(totals, e);
            let sum = l.sum_users(&f.lp_denom, e);
            let denom_capped = total.max(sum).max(1);
            let rate = f.emission_rate.u128();
            let capped = (bi(rate) * bi(wu)).div_floor(&bi(denom_capped));
            *r.capped.entry(f.farm_asset.denom.clone()).or_default() += &capped;
            *r.per_farm.entry(f.identifier.clone()).or_default() += &capped;
            if total > 0 {
                let fl = (bi(rate) * bi(wu)).div_floor(&bi(total));
                if fl > BigInt::from(0) {
                    *r.farm_epochs.entry(f.farm_asset.denom.clone()).or_default() += 1;
                }
                *r.by_total_floor.entry(f.farm_asset.denom.clone()).or_default() += fl;
            }
        }
    }
    r
}
