//! The monitored world: the four real contracts on a cw-multi-test chain whose bank,
//! token-factory and contract-dispatch boundaries are instrumented (event log, call counter,
//! fault plan).  Nothing in here knows about any property.

use std::cell::RefCell;
use std::collections::BTreeMap;
use std::panic::{catch_unwind, AssertUnwindSafe};
use std::rc::Rc;

use anyhow::{anyhow, bail, Result as AnyResult};
use cosmwasm_std::{
    coins, to_json_binary, Addr, AnyMsg, Api, BankMsg, BankQuery, Binary, BlockInfo, Coin,
    CustomMsg, CustomQuery, Decimal, Deps, DepsMut, Empty, Env, GrpcQuery, MessageInfo, Order,
    Querier, Record, Reply, Response, StdError, Storage, Timestamp, Uint128, Uint64,
};
use cw_multi_test::{
    App, AppBuilder, AppResponse, Bank, BankKeeper, BankSudo, Contract, ContractWrapper,
    CosmosRouter, DistributionKeeper, Executor, FailingModule, GovFailingModule, IbcFailingModule,
    MockApiBech32, Module, StakeKeeper, Stargate, WasmKeeper,
};
use mantra_dex_std::tokenfactory::burn::MsgBurn;
use mantra_dex_std::tokenfactory::common::EncodeMessage;
use mantra_dex_std::tokenfactory::create_denom::{MsgCreateDenom, MsgCreateDenomResponse};
use mantra_dex_std::tokenfactory::mint::MsgMint;
use mantra_dex_std::tokenfactory::responses::{Params, QueryParamsResponse};
use serde::de::DeserializeOwned;
use serde::Serialize;

// ---------------------------------------------------------------------------------------------
// storage with O(1) fork

#[derive(Clone, Default, PartialEq, Eq, Debug)]
pub struct SnapStorage {
    pub data: BTreeMap<Vec<u8>, Vec<u8>>,
}

impl Storage for SnapStorage {
    fn get(&self, key: &[u8]) -> Option<Vec<u8>> {
        self.data.get(key).cloned()
    }
    fn set(&mut self, key: &[u8], value: &[u8]) {
        if value.is_empty() {
            panic!("empty value in Storage::set");
        }
        self.data.insert(key.to_vec(), value.to_vec());
    }
    fn remove(&mut self, key: &[u8]) {
        self.data.remove(key);
    }
    fn range<'a>(
        &'a self,
        start: Option<&[u8]>,
        end: Option<&[u8]>,
        order: Order,
    ) -> Box<dyn Iterator<Item = Record> + 'a> {
        use std::ops::Bound;
        let lo = match start {
            Some(s) => Bound::Included(s.to_vec()),
            None => Bound::Unbounded,
        };
        let hi = match end {
            Some(e) => Bound::Excluded(e.to_vec()),
            None => Bound::Unbounded,
        };
        if let (Some(s), Some(e)) = (start, end) {
            if s >= e {
                return Box::new(std::iter::empty());
            }
        }
        let it = self.data.range((lo, hi)).map(|(k, v)| (k.clone(), v.clone()));
        match order {
            Order::Ascending => Box::new(it),
            Order::Descending => Box::new(it.rev()),
        }
    }
}

// ---------------------------------------------------------------------------------------------
// instrumentation shared by the bank, the token factory and the contract wrappers

#[derive(Clone, Debug, PartialEq, Eq, Serialize)]
pub enum BankKind {
    Send,
    Burn,
    Mint,
}

#[derive(Clone, Debug, Serialize)]
pub struct BankEv {
    pub kind: BankKind,
    pub from: String,
    pub to: String,
    pub coins: Vec<Coin>,
    pub ok: bool,
}

#[derive(Clone, Debug, PartialEq, Eq, Serialize)]
pub enum CallKind {
    BankSend,
    BankBurn,
    BankMint,
    TfCreate,
    TfMint,
    TfBurn,
    Exec(String),
    Reply(String),
}

#[derive(Default)]
pub struct Mon {
    pub log: Vec<BankEv>,
    pub calls: Vec<CallKind>,
    /// fail the k-th chain call (1-based) of the current message
    pub fail_at: Option<usize>,
    /// transfers *to* this address fail (transfer hook blocking a recipient)
    pub fail_send_to: Option<String>,
    /// transfers of this denom fail unless they involve `fail_denom_except`
    pub fail_denom: Option<String>,
    pub injected: usize,
}

impl Mon {
    fn call(&mut self, kind: CallKind) -> AnyResult<()> {
        self.calls.push(kind.clone());
        if let Some(k) = self.fail_at {
            if self.calls.len() == k {
                self.injected += 1;
                bail!("injected failure at chain call #{k} ({kind:?})");
            }
        }
        Ok(())
    }
}

pub type MonRef = Rc<RefCell<Mon>>;

// ---------------------------------------------------------------------------------------------
// bank

pub struct MonBank {
    inner: BankKeeper,
    mon: MonRef,
}

impl MonBank {
    pub fn init_balance(
        &self,
        storage: &mut dyn Storage,
        account: &Addr,
        amount: Vec<Coin>,
    ) -> AnyResult<()> {
        self.inner.init_balance(storage, account, amount)
    }
}

impl Bank for MonBank {}

impl Module for MonBank {
    type ExecT = BankMsg;
    type QueryT = BankQuery;
    type SudoT = BankSudo;

    fn execute<ExecC, QueryC>(
        &self,
        api: &dyn Api,
        storage: &mut dyn Storage,
        router: &dyn CosmosRouter<ExecC = ExecC, QueryC = QueryC>,
        block: &BlockInfo,
        sender: Addr,
        msg: BankMsg,
    ) -> AnyResult<AppResponse>
    where
        ExecC: CustomMsg + DeserializeOwned + 'static,
        QueryC: CustomQuery + DeserializeOwned + 'static,
    {
        let (kind, ck, to, amount) = match &msg {
            BankMsg::Send { to_address, amount } => (
                BankKind::Send,
                CallKind::BankSend,
                to_address.clone(),
                amount.clone(),
            ),
            BankMsg::Burn { amount } => (
                BankKind::Burn,
                CallKind::BankBurn,
                String::new(),
                amount.clone(),
            ),
            _ => bail!("unsupported bank msg"),
        };
        let idx = {
            let mut m = self.mon.borrow_mut();
            m.log.push(BankEv {
                kind: kind.clone(),
                from: sender.to_string(),
                to: to.clone(),
                coins: amount.clone(),
                ok: false,
            });
            let idx = m.log.len() - 1;
            m.call(ck)?;
            if kind == BankKind::Send {
                if m.fail_send_to.as_deref() == Some(to.as_str()) {
                    m.injected += 1;
                    bail!("transfer hook: recipient {to} blocked");
                }
                if let Some(d) = m.fail_denom.clone() {
                    if amount.iter().any(|c| c.denom == d) {
                        m.injected += 1;
                        bail!("transfer hook: denom {d} frozen");
                    }
                }
            }
            idx
        };
        let r = self.inner.execute(api, storage, router, block, sender, msg);
        if r.is_ok() {
            self.mon.borrow_mut().log[idx].ok = true;
        }
        r
    }

    fn query(
        &self,
        api: &dyn Api,
        storage: &dyn Storage,
        querier: &dyn Querier,
        block: &BlockInfo,
        request: BankQuery,
    ) -> AnyResult<Binary> {
        self.inner.query(api, storage, querier, block, request)
    }

    fn sudo<ExecC, QueryC>(
        &self,
        api: &dyn Api,
        storage: &mut dyn Storage,
        router: &dyn CosmosRouter<ExecC = ExecC, QueryC = QueryC>,
        block: &BlockInfo,
        msg: BankSudo,
    ) -> AnyResult<AppResponse>
    where
        ExecC: CustomMsg + DeserializeOwned + 'static,
        QueryC: CustomQuery + DeserializeOwned + 'static,
    {
        let idx = {
            let mut m = self.mon.borrow_mut();
            match &msg {
                BankSudo::Mint { to_address, amount } => m.log.push(BankEv {
                    kind: BankKind::Mint,
                    from: String::new(),
                    to: to_address.clone(),
                    coins: amount.clone(),
                    ok: false,
                }),
                #[allow(unreachable_patterns)]
                _ => bail!("unsupported bank sudo"),
            }
            let idx = m.log.len() - 1;
            m.call(CallKind::BankMint)?;
            idx
        };
        let r = self.inner.sudo(api, storage, router, block, msg);
        if r.is_ok() {
            self.mon.borrow_mut().log[idx].ok = true;
        }
        r
    }
}

// ---------------------------------------------------------------------------------------------
// token factory

const TF_PREFIX: &[u8] = b"\x00tfmock/denom/";

fn tf_key(denom: &str) -> Vec<u8> {
    let mut k = TF_PREFIX.to_vec();
    k.extend_from_slice(denom.as_bytes());
    k
}

pub struct TfMock {
    pub fees: Rc<RefCell<Vec<Coin>>>,
    /// probes only: accept the creation of a denom that already exists (as the repository's own
    /// test mock does), to see whether the contracts' own checks hold without the chain's help
    pub lenient: Rc<std::cell::Cell<bool>>,
    mon: MonRef,
}

impl TfMock {
    fn handle<ExecC, QueryC>(
        &self,
        api: &dyn Api,
        storage: &mut dyn Storage,
        router: &dyn CosmosRouter<ExecC = ExecC, QueryC = QueryC>,
        block: &BlockInfo,
        sender: Addr,
        type_url: String,
        value: Binary,
    ) -> AnyResult<AppResponse>
    where
        ExecC: CustomMsg + DeserializeOwned + 'static,
        QueryC: CustomQuery + DeserializeOwned + 'static,
    {
        match type_url.as_str() {
            "/osmosis.tokenfactory.v1beta1.MsgCreateDenom" => {
                self.mon.borrow_mut().call(CallKind::TfCreate)?;
                let m: MsgCreateDenom = MsgCreateDenom::decode(value.into())?;
                if m.sender != sender.as_str() {
                    bail!("tokenfactory: sender mismatch");
                }
                let denom = format!("factory/{}/{}", m.sender, m.subdenom);
                if m.subdenom.len() > 44 || denom.len() > 128 {
                    bail!("tokenfactory: invalid subdenom");
                }
                if storage.get(&tf_key(&denom)).is_some() && !self.lenient.get() {
                    bail!("tokenfactory: denom {denom} already exists");
                }
                let fees = self.fees.borrow().clone();
                if !fees.is_empty() {
                    router.execute(
                        api,
                        storage,
                        block,
                        sender.clone(),
                        BankMsg::Burn { amount: fees }.into(),
                    )?;
                }
                storage.set(&tf_key(&denom), m.sender.as_bytes());
                let data = to_json_binary(&MsgCreateDenomResponse {
                    new_token_denom: denom,
                })?;
                Ok(AppResponse {
                    events: vec![],
                    data: Some(data),
                })
            }
            "/osmosis.tokenfactory.v1beta1.MsgMint" => {
                self.mon.borrow_mut().call(CallKind::TfMint)?;
                let m: MsgMint = MsgMint::decode(value.into())?;
                if m.sender != sender.as_str() {
                    bail!("tokenfactory: sender mismatch");
                }
                match storage.get(&tf_key(&m.amount.denom)) {
                    Some(admin) if admin == m.sender.as_bytes() => {}
                    Some(_) => bail!("tokenfactory: unauthorized mint of {}", m.amount.denom),
                    None => bail!("tokenfactory: denom {} does not exist", m.amount.denom),
                }
                if m.amount.amount.is_zero() {
                    bail!("tokenfactory: zero mint");
                }
                router.sudo(
                    api,
                    storage,
                    block,
                    BankSudo::Mint {
                        to_address: m.mint_to_address,
                        amount: coins(m.amount.amount.u128(), m.amount.denom),
                    }
                    .into(),
                )
            }
            "/osmosis.tokenfactory.v1beta1.MsgBurn" => {
                self.mon.borrow_mut().call(CallKind::TfBurn)?;
                let m: MsgBurn = MsgBurn::decode(value.into())?;
                if m.sender != sender.as_str() {
                    bail!("tokenfactory: sender mismatch");
                }
                match storage.get(&tf_key(&m.amount.denom)) {
                    Some(admin) if admin == m.sender.as_bytes() => {}
                    Some(_) => bail!("tokenfactory: unauthorized burn of {}", m.amount.denom),
                    None => bail!("tokenfactory: denom {} does not exist", m.amount.denom),
                }
                if m.burn_from_address != m.sender {
                    bail!("tokenfactory: burn from another account not supported");
                }
                router.execute(
                    api,
                    storage,
                    block,
                    sender,
                    BankMsg::Burn {
                        amount: coins(m.amount.amount.u128(), m.amount.denom),
                    }
                    .into(),
                )
            }
            _ => Err(anyhow!("Unexpected exec msg {type_url} from {sender:?}")),
        }
    }

    fn params(&self) -> QueryParamsResponse {
        let fees = self
            .fees
            .borrow()
            .iter()
            .map(|c| mantrachain_std::types::cosmos::base::v1beta1::Coin {
                denom: c.denom.clone(),
                amount: c.amount.u128().to_string(),
            })
            .collect();
        QueryParamsResponse {
            params: Some(Params {
                denom_creation_fee: fees,
                denom_creation_gas_consume: 0,
            }),
        }
    }
}

impl Stargate for TfMock {
    fn execute_any<ExecC, QueryC>(
        &self,
        api: &dyn Api,
        storage: &mut dyn Storage,
        router: &dyn CosmosRouter<ExecC = ExecC, QueryC = QueryC>,
        block: &BlockInfo,
        sender: Addr,
        msg: AnyMsg,
    ) -> AnyResult<AppResponse>
    where
        ExecC: CustomMsg + DeserializeOwned + 'static,
        QueryC: CustomQuery + DeserializeOwned + 'static,
    {
        self.handle(api, storage, router, block, sender, msg.type_url, msg.value)
    }

    fn execute_stargate<ExecC, QueryC>(
        &self,
        api: &dyn Api,
        storage: &mut dyn Storage,
        router: &dyn CosmosRouter<ExecC = ExecC, QueryC = QueryC>,
        block: &BlockInfo,
        sender: Addr,
        type_url: String,
        value: Binary,
    ) -> AnyResult<AppResponse>
    where
        ExecC: CustomMsg + DeserializeOwned + 'static,
        QueryC: CustomQuery + DeserializeOwned + 'static,
    {
        self.handle(api, storage, router, block, sender, type_url, value)
    }

    fn query_stargate(
        &self,
        _api: &dyn Api,
        _storage: &dyn Storage,
        _querier: &dyn Querier,
        _block: &BlockInfo,
        path: String,
        _data: Binary,
    ) -> AnyResult<Binary> {
        match path.as_str() {
            "/osmosis.tokenfactory.v1beta1.Query/Params" => Ok(to_json_binary(&self.params())?),
            _ => Err(anyhow!("Unexpected stargate query request {path}")),
        }
    }

    fn query_grpc(
        &self,
        _api: &dyn Api,
        _storage: &dyn Storage,
        _querier: &dyn Querier,
        _block: &BlockInfo,
        request: GrpcQuery,
    ) -> AnyResult<Binary> {
        match request.path.as_str() {
            "/osmosis.tokenfactory.v1beta1.Query/Params" => {
                Ok(Binary::from(QueryParamsResponse::encode(self.params())))
            }
            p => Err(anyhow!("Unexpected grpc query request {p}")),
        }
    }
}

// ---------------------------------------------------------------------------------------------
// contract wrapper: counts contract entry calls and can reject the k-th one

struct Wrapped {
    inner: Box<dyn Contract<Empty>>,
    label: &'static str,
    mon: MonRef,
}

impl Contract<Empty> for Wrapped {
    fn execute(
        &self,
        deps: DepsMut,
        env: Env,
        info: MessageInfo,
        msg: Vec<u8>,
    ) -> AnyResult<Response> {
        self.mon
            .borrow_mut()
            .call(CallKind::Exec(self.label.to_string()))?;
        self.inner.execute(deps, env, info, msg)
    }
    fn instantiate(
        &self,
        deps: DepsMut,
        env: Env,
        info: MessageInfo,
        msg: Vec<u8>,
    ) -> AnyResult<Response> {
        self.inner.instantiate(deps, env, info, msg)
    }
    fn query(&self, deps: Deps, env: Env, msg: Vec<u8>) -> AnyResult<Binary> {
        // on a chain a contract that panics while answering a query makes the VM return an error
        // to the querying contract (which may handle it); it does not abort the caller
        match std::panic::catch_unwind(std::panic::AssertUnwindSafe(|| self.inner.query(deps, env, msg))) {
            Ok(r) => r,
            Err(e) => {
                let m = e.downcast_ref::<String>().cloned().or_else(|| e.downcast_ref::<&str>().map(|s| s.to_string())).unwrap_or_else(|| "panic".to_string());
                Err(anyhow::anyhow!("query aborted: {m}"))
            }
        }
    }
    fn sudo(&self, deps: DepsMut, env: Env, msg: Vec<u8>) -> AnyResult<Response> {
        self.inner.sudo(deps, env, msg)
    }
    fn reply(&self, deps: DepsMut, env: Env, msg: Reply) -> AnyResult<Response> {
        self.mon
            .borrow_mut()
            .call(CallKind::Reply(self.label.to_string()))?;
        self.inner.reply(deps, env, msg)
    }
    fn migrate(&self, deps: DepsMut, env: Env, msg: Vec<u8>) -> AnyResult<Response> {
        self.inner.migrate(deps, env, msg)
    }
}

// a contract account that rejects every execute (stand-in for a failing sub-call target)
fn reject_all_execute(
    _d: DepsMut,
    _e: Env,
    _i: MessageInfo,
    _m: Empty,
) -> Result<Response, StdError> {
    Err(StdError::generic_err("reject-all"))
}
fn reject_all_instantiate(
    _d: DepsMut,
    _e: Env,
    _i: MessageInfo,
    _m: Empty,
) -> Result<Response, StdError> {
    Ok(Response::default())
}
fn reject_all_query(_d: Deps, _e: Env, _m: Empty) -> Result<Binary, StdError> {
    Err(StdError::generic_err("reject-all"))
}

// ---------------------------------------------------------------------------------------------
// the world

pub type DexApp = App<
    MonBank,
    MockApiBech32,
    SnapStorage,
    FailingModule<Empty, Empty, Empty>,
    WasmKeeper<Empty, Empty>,
    StakeKeeper,
    DistributionKeeper,
    IbcFailingModule,
    GovFailingModule,
    TfMock,
>;

#[derive(Clone, Debug)]
pub struct WorldCfg {
    /// base denoms and their decimals
    pub denoms: Vec<(String, u8)>,
    pub n_users: usize,
    pub user_funds: u128,
    pub pool_creation_fee: Coin,
    pub tf_fees: Vec<Coin>,
    pub farm_fee: Coin,
    pub max_concurrent_farms: u32,
    pub max_farm_epoch_buffer: u32,
    pub min_unlocking_duration: u64,
    pub max_unlocking_duration: u64,
    pub farm_expiration_time: u64,
    pub emergency_unlock_penalty: Decimal,
    pub start_time: u64,
    pub epoch_duration: u64,
    /// constant sub-second part of every block time (real chains report nanosecond block times)
    pub subsec_nanos: u64,
}

impl Default for WorldCfg {
    fn default() -> Self {
        WorldCfg {
            denoms: vec![
                ("uom".into(), 6),
                ("uusdc".into(), 6),
                ("uusdt".into(), 6),
                ("uwbtc".into(), 8),
                ("ux12".into(), 12),
                ("udai".into(), 18),
                ("ueth".into(), 18),
            ],
            n_users: 5,
            user_funds: 10u128.pow(36),
            pool_creation_fee: Coin::new(1_000u128, "uom"),
            tf_fees: vec![Coin::new(1_000u128, "uom")],
            farm_fee: Coin::new(1_000u128, "uom"),
            max_concurrent_farms: 3,
            max_farm_epoch_buffer: 14,
            min_unlocking_duration: 86_400,
            max_unlocking_duration: 31_556_926,
            farm_expiration_time: 2_629_746,
            emergency_unlock_penalty: Decimal::percent(10),
            start_time: 1_700_000_000,
            epoch_duration: 86_400,
            subsec_nanos: 0,
        }
    }
}

#[derive(Clone)]
pub struct Snap {
    pub storage: SnapStorage,
    pub block: BlockInfo,
}

pub type Ev = (String, Vec<(String, String)>);

#[derive(Clone, Debug)]
pub enum Outcome {
    Ok {
        events: Vec<Ev>,
        data: Option<Binary>,
        log: Vec<BankEv>,
        calls: Vec<CallKind>,
    },
    Err {
        msg: String,
        attempted: Vec<BankEv>,
        calls: Vec<CallKind>,
    },
    Abort {
        msg: String,
        calls: Vec<CallKind>,
    },
}

impl Outcome {
    pub fn is_ok(&self) -> bool {
        matches!(self, Outcome::Ok { .. })
    }
    pub fn err_msg(&self) -> Option<&str> {
        match self {
            Outcome::Ok { .. } => None,
            Outcome::Err { msg, .. } => Some(msg),
            Outcome::Abort { msg, .. } => Some(msg),
        }
    }
    pub fn is_abort(&self) -> bool {
        matches!(self, Outcome::Abort { .. })
    }
    pub fn log(&self) -> &[BankEv] {
        match self {
            Outcome::Ok { log, .. } => log,
            _ => &[],
        }
    }
    pub fn calls(&self) -> &[CallKind] {
        match self {
            Outcome::Ok { calls, .. } => calls,
            Outcome::Err { calls, .. } => calls,
            Outcome::Abort { calls, .. } => calls,
        }
    }
    pub fn events(&self) -> &[Ev] {
        match self {
            Outcome::Ok { events, .. } => events,
            _ => &[],
        }
    }
    /// wasm events (attributes without `_contract_address`) emitted by `contract`, in order
    pub fn wasm_events(&self, contract: &Addr) -> Vec<Vec<(String, String)>> {
        self.events()
            .iter()
            .filter(|(ty, attrs)| {
                ty == "wasm"
                    && attrs
                        .iter()
                        .any(|(k, v)| k == "_contract_address" && v == contract.as_str())
            })
            .map(|(_, attrs)| {
                attrs
                    .iter()
                    .filter(|(k, _)| k != "_contract_address")
                    .cloned()
                    .collect()
            })
            .collect()
    }
    pub fn short(&self) -> String {
        match self {
            Outcome::Ok { .. } => "ok".into(),
            Outcome::Err { msg, .. } => format!("err: {}", trunc(msg, 160)),
            Outcome::Abort { msg, .. } => format!("abort: {}", trunc(msg, 160)),
        }
    }
}

pub fn trunc(s: &str, n: usize) -> String {
    if s.len() <= n {
        s.to_string()
    } else {
        let mut e = n;
        while !s.is_char_boundary(e) {
            e -= 1;
        }
        format!("{}…", &s[..e])
    }
}

pub fn attr<'a>(attrs: &'a [(String, String)], key: &str) -> Option<&'a str> {
    attrs.iter().find(|(k, _)| k == key).map(|(_, v)| v.as_str())
}

pub struct World {
    pub app: DexApp,
    pub mon: MonRef,
    pub tf_fees: Rc<RefCell<Vec<Coin>>>,
    pub tf_lenient: Rc<std::cell::Cell<bool>>,
    pub cfg: WorldCfg,
    pub owner: Addr,
    pub deployer: Addr,
    pub users: Vec<Addr>,
    /// a contract account used as an ordinary user / receiver
    pub hostile: Addr,
    pub reject_all: Addr,
    /// a plain account the owners may name as fee collector instead of the fee-collector contract
    pub fc2: Addr,
    pub pm: Addr,
    pub fm: Addr,
    pub em: Addr,
    pub fc: Addr,
    pub code_ids: [u64; 5],
}

fn wrap(inner: Box<dyn Contract<Empty>>, label: &'static str, mon: &MonRef) -> Box<dyn Contract<Empty>> {
    Box::new(Wrapped {
        inner,
        label,
        mon: mon.clone(),
    })
}

impl World {
    pub fn new(cfg: WorldCfg) -> World {
        let mon: MonRef = Rc::new(RefCell::new(Mon::default()));
        let tf_fees = Rc::new(RefCell::new(cfg.tf_fees.clone()));
        let tf_lenient = Rc::new(std::cell::Cell::new(false));
        let api = MockApiBech32::new("mantra");
        let owner = api.addr_make("owner");
        // the account that deploys (instantiates) the contracts that name their owner in the
        // instantiate message; it must end up with no rights at all
        let deployer = api.addr_make("deployer");
        let api_fc2 = api.addr_make("fee_collector_2");
        let users: Vec<Addr> = (0..cfg.n_users)
            .map(|i| api.addr_make(&format!("user{i}")))
            .collect();

        let bank = MonBank {
            inner: BankKeeper::new(),
            mon: mon.clone(),
        };
        let tf = TfMock {
            fees: tf_fees.clone(),
            lenient: tf_lenient.clone(),
            mon: mon.clone(),
        };
        let funds: Vec<Coin> = cfg
            .denoms
            .iter()
            .map(|(d, _)| Coin::new(cfg.user_funds, d.clone()))
            .collect();
        let mut all = users.clone();
        all.push(owner.clone());
        let block = BlockInfo {
            height: 1,
            time: Timestamp::from_nanos(cfg.start_time * 1_000_000_000 + cfg.subsec_nanos),
            chain_id: "mantra-verif".into(),
        };
        let mut app: DexApp = AppBuilder::new()
            .with_api(api)
            .with_wasm(WasmKeeper::default())
            .with_storage(SnapStorage::default())
            .with_bank(bank)
            .with_stargate(tf)
            .with_block(block)
            .build(|router, _api, storage| {
                for a in &all {
                    router.bank.init_balance(storage, a, funds.clone()).unwrap();
                }
            });

        let pm_code = app.store_code(wrap(
            Box::new(
                ContractWrapper::new(
                    pool_manager::contract::execute,
                    pool_manager::contract::instantiate,
                    pool_manager::contract::query,
                )
                .with_reply(pool_manager::contract::reply),
            ),
            "pm",
            &mon,
        ));
        let fm_code = app.store_code(wrap(
            Box::new(
                ContractWrapper::new(
                    farm_manager::contract::execute,
                    farm_manager::contract::instantiate,
                    farm_manager::contract::query,
                )
                .with_reply(farm_manager::contract::reply),
            ),
            "fm",
            &mon,
        ));
        let em_code = app.store_code(wrap(
            Box::new(ContractWrapper::new(
                epoch_manager::contract::execute,
                epoch_manager::contract::instantiate,
                epoch_manager::contract::query,
            )),
            "em",
            &mon,
        ));
        let fc_code = app.store_code(wrap(
            Box::new(ContractWrapper::new(
                fee_collector::contract::execute,
                fee_collector::contract::instantiate,
                fee_collector::contract::query,
            )),
            "fc",
            &mon,
        ));
        let rj_code = app.store_code(wrap(
            Box::new(ContractWrapper::new(
                reject_all_execute,
                reject_all_instantiate,
                reject_all_query,
            )),
            "reject",
            &mon,
        ));

        let em = app
            .instantiate_contract(
                em_code,
                deployer.clone(),
                &mantra_dex_std::epoch_manager::InstantiateMsg {
                    owner: owner.to_string(),
                    epoch_config: mantra_dex_std::epoch_manager::EpochConfig {
                        duration: Uint64::new(cfg.epoch_duration),
                        genesis_epoch: Uint64::new(cfg.start_time),
                    },
                },
                &[],
                "epoch-manager",
                Some(owner.to_string()),
            )
            .expect("em");
        let fc = app
            .instantiate_contract(
                fc_code,
                owner.clone(),
                &mantra_dex_std::fee_collector::InstantiateMsg {},
                &[],
                "fee-collector",
                Some(owner.to_string()),
            )
            .expect("fc");
        let fm = app
            .instantiate_contract(
                fm_code,
                deployer.clone(),
                &mantra_dex_std::farm_manager::InstantiateMsg {
                    owner: owner.to_string(),
                    epoch_manager_addr: em.to_string(),
                    fee_collector_addr: fc.to_string(),
                    pool_manager_addr: String::new(),
                    create_farm_fee: cfg.farm_fee.clone(),
                    max_concurrent_farms: cfg.max_concurrent_farms,
                    max_farm_epoch_buffer: cfg.max_farm_epoch_buffer,
                    min_unlocking_duration: cfg.min_unlocking_duration,
                    max_unlocking_duration: cfg.max_unlocking_duration,
                    farm_expiration_time: cfg.farm_expiration_time,
                    emergency_unlock_penalty: cfg.emergency_unlock_penalty,
                },
                &[],
                "farm-manager",
                Some(owner.to_string()),
            )
            .expect("fm");
        let pm = app
            .instantiate_contract(
                pm_code,
                owner.clone(),
                &mantra_dex_std::pool_manager::InstantiateMsg {
                    fee_collector_addr: fc.to_string(),
                    farm_manager_addr: fm.to_string(),
                    pool_creation_fee: cfg.pool_creation_fee.clone(),
                },
                &[],
                "pool-manager",
                Some(owner.to_string()),
            )
            .expect("pm");
        app.execute_contract(
            owner.clone(),
            fm.clone(),
            &mantra_dex_std::farm_manager::ExecuteMsg::UpdateConfig {
                fee_collector_addr: None,
                epoch_manager_addr: None,
                pool_manager_addr: Some(pm.to_string()),
                create_farm_fee: None,
                max_concurrent_farms: None,
                max_farm_epoch_buffer: None,
                min_unlocking_duration: None,
                max_unlocking_duration: None,
                farm_expiration_time: None,
                emergency_unlock_penalty: None,
            },
            &[],
        )
        .expect("fm config");
        let reject_all = app
            .instantiate_contract(rj_code, owner.clone(), &Empty {}, &[], "reject-all", None)
            .expect("reject");
        let hostile = app
            .instantiate_contract(rj_code, owner.clone(), &Empty {}, &[], "hostile", None)
            .expect("hostile");
        // the contract account used as a user also holds funds
        {
            let f = funds.clone();
            let h = hostile.clone();
            app.init_modules(|router, _, storage| {
                router.bank.init_balance(storage, &h, f).unwrap();
            });
        }
        let mut w = World {
            app,
            mon,
            tf_fees,
            tf_lenient,
            cfg,
            owner,
            deployer,
            users,
            hostile,
            reject_all,
            fc2: api_fc2,
            pm,
            fm,
            em,
            fc,
            code_ids: [pm_code, fm_code, em_code, fc_code, rj_code],
        };
        w.reset_mon();
        // cw-multi-test's set_block() persists the (empty) staking queue the first time it is
        // called; do it once here so that no later snapshot/restore pair differs by that key
        let b = w.app.block_info();
        w.app.set_block(b);
        w
    }

    pub fn reset_mon(&mut self) {
        let mut m = self.mon.borrow_mut();
        m.log.clear();
        m.calls.clear();
        m.fail_at = None;
        m.fail_send_to = None;
        m.fail_denom = None;
    }

    fn begin(&mut self) {
        let mut m = self.mon.borrow_mut();
        m.log.clear();
        m.calls.clear();
    }

    fn finish(&mut self, r: std::thread::Result<AnyResult<AppResponse>>) -> Outcome {
        let (log, calls) = {
            let mut m = self.mon.borrow_mut();
            (std::mem::take(&mut m.log), std::mem::take(&mut m.calls))
        };
        match r {
            Ok(Ok(resp)) => Outcome::Ok {
                events: resp
                    .events
                    .into_iter()
                    .map(|e| {
                        (
                            e.ty,
                            e.attributes.into_iter().map(|a| (a.key, a.value)).collect(),
                        )
                    })
                    .collect(),
                data: resp.data,
                log: log.into_iter().filter(|e| e.ok).collect(),
                calls,
            },
            Ok(Err(e)) => Outcome::Err {
                msg: e.root_cause().to_string(),
                attempted: log,
                calls,
            },
            Err(p) => {
                let msg = if let Some(s) = p.downcast_ref::<&str>() {
                    s.to_string()
                } else if let Some(s) = p.downcast_ref::<String>() {
                    s.clone()
                } else {
                    "panic".to_string()
                };
                Outcome::Abort { msg, calls }
            }
        }
    }

    /// Execute a contract message as one transaction.
    pub fn exec<T: Serialize + std::fmt::Debug>(
        &mut self,
        sender: &Addr,
        contract: &Addr,
        msg: &T,
        funds: &[Coin],
    ) -> Outcome {
        self.begin();
        let app = &mut self.app;
        let r = catch_unwind(AssertUnwindSafe(|| {
            app.execute_contract(sender.clone(), contract.clone(), msg, funds)
        }));
        self.finish(r)
    }

    /// A plain bank transfer as one transaction.
    pub fn bank_send(&mut self, from: &Addr, to: &Addr, amount: &[Coin]) -> Outcome {
        self.begin();
        let app = &mut self.app;
        let r = catch_unwind(AssertUnwindSafe(|| {
            app.send_tokens(from.clone(), to.clone(), amount)
        }));
        self.finish(r)
    }

    pub fn query<T: DeserializeOwned, M: Serialize>(&self, contract: &Addr, msg: &M) -> Result<T, String> {
        let app = &self.app;
        match catch_unwind(AssertUnwindSafe(|| {
            app.wrap().query_wasm_smart::<T>(contract.to_string(), msg)
        })) {
            Ok(Ok(v)) => Ok(v),
            Ok(Err(e)) => Err(e.to_string()),
            Err(p) => {
                let msg = if let Some(s) = p.downcast_ref::<&str>() {
                    s.to_string()
                } else if let Some(s) = p.downcast_ref::<String>() {
                    s.clone()
                } else {
                    "panic".to_string()
                };
                Err(format!("ABORT: {msg}"))
            }
        }
    }

    pub fn snapshot(&self) -> Snap {
        Snap {
            storage: self.app.storage().clone(),
            block: self.app.block_info(),
        }
    }

    pub fn restore(&mut self, s: &Snap) {
        *self.app.storage_mut() = s.storage.clone();
        self.app.set_block(s.block.clone());
    }

    pub fn state(&self) -> &SnapStorage {
        self.app.storage()
    }

    pub fn now(&self) -> u64 {
        self.app.block_info().time.seconds()
    }

    pub fn set_time(&mut self, secs: u64) {
        let mut b = self.app.block_info();
        b.time = if secs < u64::MAX / 1_000_000_000 { Timestamp::from_nanos(secs * 1_000_000_000 + self.cfg.subsec_nanos) } else { Timestamp::from_seconds(secs) };
        b.height += 1;
        self.app.set_block(b);
    }

    /// block time with a sub-second part (real chains report nanosecond block times)
    pub fn set_time_ns(&mut self, secs: u64, nanos: u64) {
        let mut b = self.app.block_info();
        b.time = Timestamp::from_nanos(secs * 1_000_000_000 + nanos);
        b.height += 1;
        self.app.set_block(b);
    }

    pub fn advance(&mut self, secs: u64) {
        let t = self.now() + secs;
        self.set_time(t);
    }

    pub fn balance(&self, addr: &Addr, denom: &str) -> u128 {
        self.app
            .wrap()
            .query_balance(addr.to_string(), denom)
            .map(|c| c.amount.u128())
            .unwrap_or(0)
    }

    pub fn balances(&self, addr: &Addr) -> BTreeMap<String, u128> {
        #[allow(deprecated)]
        self.app
            .wrap()
            .query_all_balances(addr.to_string())
            .unwrap_or_default()
            .into_iter()
            .map(|c| (c.denom, c.amount.u128()))
            .collect()
    }

    pub fn supply(&self, denom: &str) -> u128 {
        self.app
            .wrap()
            .query_supply(denom)
            .map(|c| c.amount.u128())
            .unwrap_or(0)
    }

    pub fn lp_denom(&self, pool_id: &str) -> String {
        format!("factory/{}/{}.LP", self.pm, pool_id)
    }

    /// every account the harness knows about
    pub fn accounts(&self) -> Vec<Addr> {
        let mut v = self.users.clone();
        v.push(self.owner.clone());
        v.push(self.hostile.clone());
        v.push(self.reject_all.clone());
        v.push(self.fc2.clone());
        v.push(self.pm.clone());
        v.push(self.fm.clone());
        v.push(self.em.clone());
        v.push(self.fc.clone());
        v
    }

    pub fn name_of(&self, a: &str) -> String {
        if a == self.owner.as_str() {
            return "owner".into();
        }
        if a == self.pm.as_str() {
            return "pool_manager".into();
        }
        if a == self.fm.as_str() {
            return "farm_manager".into();
        }
        if a == self.em.as_str() {
            return "epoch_manager".into();
        }
        if a == self.fc.as_str() {
            return "fee_collector".into();
        }
        if a == self.hostile.as_str() {
            return "contract_user".into();
        }
        if a == self.fc2.as_str() {
            return "fee_collector_2".into();
        }
        if a == self.reject_all.as_str() {
            return "reject_all".into();
        }
        for (i, u) in self.users.iter().enumerate() {
            if a == u.as_str() {
                return format!("user{i}");
            }
        }
        a.to_string()
    }

    pub fn set_tf_fees(&mut self, fees: Vec<Coin>) {
        *self.tf_fees.borrow_mut() = fees;
    }

    pub fn mint_to(&mut self, to: &Addr, c: Coin) {
        self.app
            .sudo(
                BankSudo::Mint {
                    to_address: to.to_string(),
                    amount: vec![c],
                }
                .into(),
            )
            .expect("sudo mint");
        self.begin();
    }
}

pub fn u(x: Uint128) -> u128 {
    x.u128()
}
