//! Parsing of the pool manager's wasm events into a per-pool timeline of reserve transitions.

use std::collections::BTreeMap;

use cosmwasm_std::Addr;
use mantra_dex_std::fee::PoolFee;
use num_bigint::BigInt;
use num_traits::ToPrimitive;

use crate::ops::Obs;
use crate::world::{attr, Outcome};

#[derive(Clone, Debug)]
pub struct SwapEv {
    pub pool: String,
    pub offer_denom: String,
    pub ask_denom: String,
    pub offer_amount: u128,
    pub return_amount: u128,
    pub swap_fee: u128,
    pub protocol_fee: u128,
    pub burn_fee: u128,
    /// only direct swaps report it
    pub extra_fees: Option<u128>,
    pub slippage: Option<u128>,
    pub sender: Option<String>,
    pub receiver: Option<String>,
    pub reserves_after: Vec<(String, u128)>,
    pub routed: bool,
}

#[derive(Clone, Debug)]
pub enum PoolEv {
    Swap(SwapEv),
    Provide {
        pool: String,
        sender: String,
        receiver: String,
        added_shares: u128,
        reserves_after: Vec<(String, u128)>,
    },
    Withdraw {
        pool: String,
        sender: String,
        withdrawn_shares: u128,
        reserves_after: Vec<(String, u128)>,
    },
    RouteSummary {
        sender: String,
        receiver: String,
        offer_denom: String,
        offer_amount: u128,
        return_denom: String,
        return_amount: u128,
        hops: usize,
    },
    SingleSide,
    Other(String),
}

pub fn parse_coin(s: &str) -> Option<(String, u128)> {
    let s = s.trim();
    let k = s.find(|c: char| !c.is_ascii_digit())?;
    if k == 0 {
        return None;
    }
    Some((s[k..].to_string(), s[..k].parse().ok()?))
}

pub fn parse_reserves(s: &str) -> Vec<(String, u128)> {
    s.split(',').filter_map(parse_coin).collect()
}

fn num(attrs: &[(String, String)], k: &str) -> Option<u128> {
    attr(attrs, k)?.parse().ok()
}

/// all pool-manager events of a successful message, in emission order
pub fn parse_events(out: &Outcome, pm: &Addr) -> Result<Vec<PoolEv>, String> {
    let mut v = vec![];
    for attrs in out.wasm_events(pm) {
        let action = attr(&attrs, "action").unwrap_or("");
        match action {
            "swap" => {
                v.push(PoolEv::Swap(SwapEv {
                    pool: attr(&attrs, "pool_identifier").ok_or("swap: no pool")?.to_string(),
                    offer_denom: attr(&attrs, "offer_denom").ok_or("swap: offer_denom")?.to_string(),
                    ask_denom: attr(&attrs, "ask_denom").ok_or("swap: ask_denom")?.to_string(),
                    offer_amount: num(&attrs, "offer_amount").ok_or("swap: offer_amount")?,
                    return_amount: num(&attrs, "return_amount").ok_or("swap: return_amount")?,
                    swap_fee: num(&attrs, "swap_fee_amount").ok_or("swap: swap_fee")?,
                    protocol_fee: num(&attrs, "protocol_fee_amount").ok_or("swap: protocol_fee")?,
                    burn_fee: num(&attrs, "burn_fee_amount").ok_or("swap: burn_fee")?,
                    extra_fees: num(&attrs, "extra_fees_amount"),
                    slippage: num(&attrs, "slippage_amount"),
                    sender: attr(&attrs, "sender").map(|s| s.to_string()),
                    receiver: attr(&attrs, "receiver").map(|s| s.to_string()),
                    reserves_after: parse_reserves(attr(&attrs, "pool_reserves").ok_or("swap: reserves")?),
                    routed: false,
                }));
            }
            "execute_swap_operations" => {
                let mut hops = 0;
                let mut i = 0;
                let mut pending: Vec<SwapEv> = vec![];
                while i < attrs.len() {
                    if attrs[i].0 == "swap" {
                        // in=.., out=.., burn_fee=.., protocol_fee=.., swap_fee=..
                        let mut m: BTreeMap<&str, (String, u128)> = BTreeMap::new();
                        for part in attrs[i].1.split(", ") {
                            let (k, val) = part.split_once('=').ok_or("route: bad swap attr")?;
                            m.insert(k, parse_coin(val).ok_or("route: bad coin")?);
                        }
                        let pool = attrs
                            .get(i + 1)
                            .filter(|a| a.0 == "pool_identifier")
                            .ok_or("route: no pool id")?
                            .1
                            .clone();
                        let res = attrs
                            .get(i + 2)
                            .filter(|a| a.0 == "pool_reserves")
                            .ok_or("route: no reserves")?
                            .1
                            .clone();
                        let inn = m.get("in").ok_or("route: in")?.clone();
                        let outc = m.get("out").ok_or("route: out")?.clone();
                        pending.push(SwapEv {
                            pool,
                            offer_denom: inn.0,
                            ask_denom: outc.0,
                            offer_amount: inn.1,
                            return_amount: outc.1,
                            swap_fee: m.get("swap_fee").ok_or("route: swap_fee")?.1,
                            protocol_fee: m.get("protocol_fee").ok_or("route: protocol_fee")?.1,
                            burn_fee: m.get("burn_fee").ok_or("route: burn_fee")?.1,
                            extra_fees: None,
                            slippage: None,
                            sender: None,
                            receiver: None,
                            reserves_after: parse_reserves(&res),
                            routed: true,
                        });
                        hops += 1;
                        i += 3;
                    } else {
                        i += 1;
                    }
                }
                v.push(PoolEv::RouteSummary {
                    sender: attr(&attrs, "sender").unwrap_or("").to_string(),
                    receiver: attr(&attrs, "receiver").unwrap_or("").to_string(),
                    offer_denom: attr(&attrs, "offer_info").unwrap_or("").to_string(),
                    offer_amount: num(&attrs, "offer_amount").ok_or("route: offer_amount")?,
                    return_denom: attr(&attrs, "return_denom").unwrap_or("").to_string(),
                    return_amount: num(&attrs, "return_amount").ok_or("route: return_amount")?,
                    hops,
                });
                for p in pending {
                    v.push(PoolEv::Swap(p));
                }
            }
            "provide_liquidity" => v.push(PoolEv::Provide {
                pool: attr(&attrs, "pool_identifier").ok_or("provide: pool")?.to_string(),
                sender: attr(&attrs, "sender").unwrap_or("").to_string(),
                receiver: attr(&attrs, "receiver").unwrap_or("").to_string(),
                added_shares: num(&attrs, "added_shares").ok_or("provide: shares")?,
                reserves_after: parse_reserves(attr(&attrs, "pool_reserves").ok_or("provide: reserves")?),
            }),
            "withdraw_liquidity" => v.push(PoolEv::Withdraw {
                pool: attr(&attrs, "pool_identifier").ok_or("withdraw: pool")?.to_string(),
                sender: attr(&attrs, "sender").unwrap_or("").to_string(),
                withdrawn_shares: num(&attrs, "withdrawn_shares").ok_or("withdraw: shares")?,
                reserves_after: parse_reserves(attr(&attrs, "pool_reserves").ok_or("withdraw: reserves")?),
            }),
            "single_side_liquidity_provision" => v.push(PoolEv::SingleSide),
            other => v.push(PoolEv::Other(other.to_string())),
        }
    }
    Ok(v)
}

/// One reserve transition of one pool inside a message.
#[derive(Clone, Debug)]
pub struct Transition {
    pub pool: String,
    pub before: Vec<(String, u128)>,
    pub after: Vec<(String, u128)>,
    pub ev: PoolEv,
}

/// Chains the events' `pool_reserves` into per-pool transitions, starting from the reserves
/// reported by `Pools{}` before the message, and checks that the last reported reserves of
/// every touched pool equal what `Pools{}` reports after the message (so the events cannot lie
/// unnoticed).  Err(..) describes an inconsistency.
pub fn timeline(pre: &Obs, post: &Obs, evs: &[PoolEv]) -> Result<Vec<Transition>, String> {
    let mut cur: BTreeMap<String, Vec<(String, u128)>> = BTreeMap::new();
    let mut out = vec![];
    for e in evs {
        let (pool, after) = match e {
            PoolEv::Swap(s) => (s.pool.clone(), s.reserves_after.clone()),
            PoolEv::Provide { pool, reserves_after, .. } => (pool.clone(), reserves_after.clone()),
            PoolEv::Withdraw { pool, reserves_after, .. } => (pool.clone(), reserves_after.clone()),
            _ => continue,
        };
        let before = match cur.get(&pool) {
            Some(b) => b.clone(),
            None => match pre.pools.get(&pool) {
                Some(p) => p
                    .info
                    .assets
                    .iter()
                    .map(|c| (c.denom.clone(), c.amount.u128()))
                    .collect(),
                None => return Err(format!("event for unknown pool {pool}")),
            },
        };
        // the contract may list the assets in another order (it re-sorts them by denom after a
        // deposit with a slippage tolerance); compare by denom, keep `before`'s order
        let mut reordered = vec![];
        for (d, _) in &before {
            match after.iter().find(|(k, _)| k == d) {
                Some(x) => reordered.push(x.clone()),
                None => {
                    return Err(format!(
                        "pool {pool}: reserves attribute lists different assets: {before:?} vs {after:?}"
                    ))
                }
            }
        }
        if before.len() != after.len() {
            return Err(format!("pool {pool}: reserves attribute lists different assets: {before:?} vs {after:?}"));
        }
        let after = reordered;
        cur.insert(pool.clone(), after.clone());
        out.push(Transition {
            pool,
            before,
            after,
            ev: e.clone(),
        });
    }
    for (pool, last) in &cur {
        let p = post.pools.get(pool).ok_or(format!("pool {pool} vanished"))?;
        let mut now: Vec<(String, u128)> = vec![];
        for (d, _) in last {
            now.push((d.clone(), p.reserve(d)));
        }
        if &now != last || p.info.assets.len() != last.len() {
            return Err(format!(
                "pool {pool}: last pool_reserves attribute {last:?} differs from Pools query {now:?}"
            ));
        }
    }
    // pools without events must be unchanged
    for (id, p) in &post.pools {
        if cur.contains_key(id) {
            continue;
        }
        if let Some(q) = pre.pools.get(id) {
            let mut a = q.info.assets.clone();
            let mut b = p.info.assets.clone();
            a.sort_by(|x, y| x.denom.cmp(&y.denom));
            b.sort_by(|x, y| x.denom.cmp(&y.denom));
            if a != b {
                return Err(format!("pool {id} changed reserves without emitting an event"));
            }
        }
    }
    Ok(out)
}

pub fn mul_dec_floor(g: u128, atomics: u128) -> u128 {
    let r = BigInt::from(g) * BigInt::from(atomics) / BigInt::from(10u128.pow(18));
    r.to_u128().unwrap_or(u128::MAX)
}

#[derive(Clone, Debug, PartialEq, Eq)]
pub struct FeeSplit {
    pub swap: u128,
    pub protocol: u128,
    pub burn: u128,
    pub extra: u128,
}

pub fn fees_of(g: u128, f: &PoolFee) -> FeeSplit {
    FeeSplit {
        swap: mul_dec_floor(g, f.swap_fee.share.atomics().u128()),
        protocol: mul_dec_floor(g, f.protocol_fee.share.atomics().u128()),
        burn: mul_dec_floor(g, f.burn_fee.share.atomics().u128()),
        extra: f
            .extra_fees
            .iter()
            .map(|e| mul_dec_floor(g, e.share.atomics().u128()))
            .sum(),
    }
}

impl FeeSplit {
    pub fn total(&self) -> u128 {
        self.swap + self.protocol + self.burn + self.extra
    }
}

/// all gross amounts G with  G - fees(G) == net.
/// With total share phi and k fee components, G(1-phi) <= G - fees(G) < G(1-phi) + k, so every
/// solution lies in [net - k, net + k] / (1 - phi); that window is scanned completely.
pub fn gross_candidates(net: u128, f: &PoolFee) -> Vec<u128> {
    let k = 3 + f.extra_fees.len() as u128;
    let one = BigInt::from(10u128.pow(18));
    let mut phi = BigInt::from(f.swap_fee.share.atomics().u128())
        + BigInt::from(f.protocol_fee.share.atomics().u128())
        + BigInt::from(f.burn_fee.share.atomics().u128());
    for e in &f.extra_fees {
        phi += BigInt::from(e.share.atomics().u128());
    }
    let den = &one - &phi;
    if den <= BigInt::from(0) {
        return vec![];
    }
    let lo = (BigInt::from(net.saturating_sub(k)) * &one / &den).to_u128().unwrap_or(0).saturating_sub(2);
    let hi = (BigInt::from(net + k) * &one / &den).to_u128().unwrap_or(u128::MAX - 4) + 2;
    let mut v = vec![];
    let mut g = lo.max(net);
    while g <= hi && v.len() < 256 {
        if g - fees_of(g, f).total() == net {
            v.push(g);
        }
        g += 1;
    }
    v
}

/// reserves as JSON (u128 amounts as strings: serde_json numbers stop at u64)
pub fn jres(v: &[(String, u128)]) -> serde_json::Value {
    serde_json::Value::Array(v.iter().map(|(d, a)| serde_json::Value::String(format!("{a}{d}"))).collect())
}
