//! C01 — pool reserves are always fully backed by the pool manager's real balances.

use std::collections::{BTreeMap, BTreeSet};

use mantra_dex_std::pool_manager as pm;
use serde_json::json;

use crate::ops::{witness, Monitor, Op, Step};
use crate::report::{hash_of, Reporter};
use crate::world::World;

#[derive(Default)]
pub struct C01 {
    /// tokens sent to the pool manager outside pool operations
    donations: BTreeMap<String, u128>,
    /// indivisible units left by odd-amount single-asset deposits
    odd: BTreeMap<String, u128>,
    /// LP minted to the contract itself when a pool was first funded
    locked: BTreeMap<String, u128>,
}

pub fn aggregate(funds: &[cosmwasm_std::Coin]) -> BTreeMap<String, u128> {
    let mut m = BTreeMap::new();
    for c in funds {
        *m.entry(c.denom.clone()).or_insert(0u128) += c.amount.u128();
    }
    m
}

impl Monitor for C01 {
    fn step(&mut self, w: &mut World, s: &Step, rep: &mut Reporter) {
        // ledger updates from what the harness itself did and saw succeed
        if s.out.is_ok() {
            match s.op {
                Op::Send { to, coins, .. } if *to == w.pm => {
                    for c in coins {
                        *self.donations.entry(c.denom.clone()).or_default() += c.amount.u128();
                    }
                    rep.count("backing", "donations");
                }
                Op::Pm {
                    msg: pm::ExecuteMsg::ProvideLiquidity { .. },
                    funds,
                    ..
                } => {
                    let agg = aggregate(funds);
                    if agg.len() == 1 {
                        let (d, a) = agg.iter().next().unwrap();
                        if a % 2 == 1 {
                            *self.odd.entry(d.clone()).or_default() += 1;
                            rep.count("backing", "odd_single_asset_deposits");
                        }
                    }
                }
                _ => {}
            }
        }
        // first funding of a pool: remember what the contract minted to itself
        for (id, p) in &s.post.pools {
            let lp = &p.info.lp_denom;
            let before = s.pre.pools.get(id).map(|q| q.supply).unwrap_or(0);
            if before == 0 && p.supply > 0 && !self.locked.contains_key(lp) {
                let held = s.post.bal(&w.pm, lp).saturating_sub(s.pre.bal(&w.pm, lp));
                self.locked.insert(lp.clone(), held);
                if held < 1000 || held > p.supply {
                    rep.failed(
                        "lp_held",
                        None,
                        format!("pool {id} first funded but the contract locked {held} LP (supply {})", p.supply),
                        witness(json!({"pool": id, "locked": held.to_string(), "supply": p.supply.to_string()})),
                    );
                } else {
                    rep.held("lp_held", hash_of(&(id, "first")), || json!({"pool": id, "locked_minimum": held.to_string(), "supply": p.supply.to_string()}));
                }
            }
        }

        // quiescent invariant, after every message whatever its outcome
        let mut reserves: BTreeMap<String, u128> = BTreeMap::new();
        let mut sharing: BTreeMap<String, u32> = BTreeMap::new();
        let mut lp_denoms: BTreeSet<String> = BTreeSet::new();
        for p in s.post.pools.values() {
            lp_denoms.insert(p.info.lp_denom.clone());
            for c in &p.info.assets {
                *reserves.entry(c.denom.clone()).or_default() += c.amount.u128();
                *sharing.entry(c.denom.clone()).or_default() += 1;
            }
        }
        let empty = BTreeMap::new();
        let bank = s.post.bal.get(w.pm.as_str()).unwrap_or(&empty);
        let mut denoms: BTreeSet<String> = bank.keys().cloned().collect();
        denoms.extend(reserves.keys().cloned());
        let mut bad = vec![];
        for d in &denoms {
            let b = *bank.get(d).unwrap_or(&0);
            let r = *reserves.get(d).unwrap_or(&0);
            let explained = self.donations.get(d).copied().unwrap_or(0)
                + self.odd.get(d).copied().unwrap_or(0)
                + self.locked.get(d).copied().unwrap_or(0);
            if b < r {
                bad.push(json!({"denom": d, "bank": b.to_string(), "sum_reserves": r.to_string(), "kind": "under-backed"}));
            } else if b - r != explained {
                bad.push(json!({"denom": d, "bank": b.to_string(), "sum_reserves": r.to_string(),
                    "explained_excess": explained.to_string(), "kind": "unexplained excess or shortfall of the excess"}));
            }
        }
        let maxshare = sharing.values().copied().max().unwrap_or(0);
        let abs = hash_of(&(s.op.kind(), s.out.is_ok(), s.out.is_abort(), s.post.pools.len(), maxshare));
        if bad.is_empty() {
            rep.held("backing", abs, || {
                json!({"after": s.op.kind(), "result": s.out.short(), "pools": s.post.pools.len(),
                       "denoms_checked": denoms.len(), "max_pools_sharing_a_denom": maxshare})
            });
        } else {
            rep.failed(
                "backing",
                None,
                format!("after {}: {}", s.op.kind(), serde_json::to_string(&bad).unwrap()),
                witness(json!({"mismatches": bad})),
            );
        }
        // LP held by the contract: only the locked minimum (plus LP somebody donated)
        for lp in &lp_denoms {
            let held = *bank.get(lp).unwrap_or(&0);
            let exp = self.locked.get(lp).copied().unwrap_or(0) + self.donations.get(lp).copied().unwrap_or(0);
            if held != exp {
                rep.failed(
                    "lp_held",
                    None,
                    format!("pool manager holds {held} of {lp}, expected locked minimum + donated = {exp}"),
                    witness(json!({"lp": lp, "held": held.to_string(), "expected": exp.to_string()})),
                );
            } else if held > 0 {
                rep.held("lp_held", hash_of(&(lp, s.op.kind())), || json!({"lp": lp, "held": held.to_string()}));
            }
        }
    }
}
