//! C09 — the emergency exit penalty is bounded, decays to zero and is fully accounted for.

use std::collections::{BTreeMap, BTreeSet};

use cosmwasm_std::Addr;
use mantra_dex_std::farm_manager as fm;
use mantra_dex_std::farm_manager::{Position, PositionAction};
use num_bigint::BigInt;
use num_integer::Integer;
use num_traits::{Signed, Zero};
use rand::rngs::StdRng;
use rand::seq::SliceRandom;
use rand::{Rng, SeedableRng};
use serde_json::json;

use crate::exact::{bi, pow10, weight_multiplier, Q};
use crate::ops::{witness, Monitor, Op, Step};
use crate::props::c11::expired;
use crate::report::{hash_of, Reporter};
use crate::wfarm::{fobserve, pos_op, FObs};
use crate::world::{BankKind, Outcome, World};

pub struct C09 {
    rng: StdRng,
    pub probe_every: usize,
    probe_n: u32,
    /// the last judged penalty could only be recovered up to its parity (see `judge`)
    parity_unknown: std::cell::Cell<bool>,
}

impl C09 {
    pub fn new(seed: u64) -> C09 {
        C09 {
            rng: StdRng::seed_from_u64(seed ^ 0xC09),
            probe_every: 20,
            probe_n: 0,
            parity_unknown: std::cell::Cell::new(false),
        }
    }
}

struct Paid {
    owner: u128,
    fee_collector: u128,
    others: BTreeMap<String, u128>,
}

fn paid(out: &Outcome, w: &World, fc: &str, pos: &Position) -> Paid {
    let mut p = Paid { owner: 0, fee_collector: 0, others: BTreeMap::new() };
    for e in out.log() {
        if e.kind != BankKind::Send || e.from != w.fm.as_str() {
            continue;
        }
        for c in &e.coins {
            if c.denom != pos.lp_asset.denom {
                *p.others.entry(format!("{}:{}", e.to, c.denom)).or_default() += c.amount.u128();
                continue;
            }
            if e.to == pos.receiver.as_str() {
                p.owner += c.amount.u128();
            } else if e.to == fc {
                p.fee_collector += c.amount.u128();
            } else {
                *p.others.entry(e.to.clone()).or_default() += c.amount.u128();
            }
        }
    }
    p
}

/// exact penalty fraction min(0.9, base x remaining/duration x multiplier) as a rational
fn exact_fraction(pos: &Position, base_atomics: u128, now: u64) -> Q {
    let remaining = match pos.expiring_at {
        Some(e) => e.saturating_sub(now),
        None => pos.unlocking_duration,
    };
    let (mn, md) = weight_multiplier(pos.unlocking_duration);
    let mult = Q::new(mn, md);
    // the contract clamps a position's weight to at least its amount
    let mult = if mult.lt(&Q::int(1)) { Q::int(1) } else { mult };
    let f = Q::dec(base_atomics).mul(&Q::ratio(remaining as u128, pos.unlocking_duration as u128)).mul(&mult);
    f.min(&Q::new(BigInt::from(9), BigInt::from(10)))
}

impl C09 {
    /// judge one executed emergency withdrawal; returns the penalty
    fn judge(&self, w: &World, f: &FObs, pos: &Position, now: u64, out: &Outcome, how: &str, rep: &mut Reporter) -> Option<u128> {
        let amount = pos.lp_asset.amount.u128();
        // the fee collector is whoever the configuration names at the time of the exit
        let fcs = f.cfg.fee_collector_addr.to_string();
        let mut p = paid(out, w, &fcs, pos);
        // who may receive a share: owners of farms on this LP token that have started and are not expired
        let cur = f.epoch.unwrap_or(0);
        let active: BTreeSet<String> = f
            .farms
            .values()
            .filter(|fa| fa.lp_denom == pos.lp_asset.denom && fa.start_epoch <= cur && !expired(w, fa, &f.cfg, now))
            .map(|fa| fa.owner.to_string())
            .collect();
        // the position's owner may itself own an active farm on this LP token and then receives a
        // share of its own penalty - in a transfer of its own or merged with its payout. Only
        // what each party ends up with is observed, so the penalty is recovered from the fee
        // collector's part (ceil(P/2) when shares are paid, P when they round to zero) and must
        // reproduce the owner's total
        let mut owner_inconsistent = false;
        self.parity_unknown.set(false);
        if active.contains(pos.receiver.as_str()) && pos.receiver.as_str() != fcs.as_str() {
            let n = active.len() as u128;
            let total_to_owner = p.owner;
            let fc = p.fee_collector;
            let split = |pen: u128| -> (u128, u128) {
                let half = pen / 2;
                let share = half / n;
                if share > 0 {
                    (share, pen - half)
                } else {
                    (0, pen)
                }
            };
            let mut found = None;
            // a fee collector that itself owns an active farm here gets a share on top of its part
            let fc_active = active.contains(&fcs);
            let mut cands = vec![fc, (2 * fc).saturating_sub(1), 2 * fc, 0];
            if fc_active {
                let est = fc.saturating_mul(2 * n) / (n + 1);
                for d in 0..8u128 {
                    cands.push(est.saturating_sub(4) + d);
                }
            }
            for cand in cands {
                if cand > amount {
                    continue;
                }
                let (share, fc_part) = split(cand);
                let fc_part = if fc_active { fc_part + share } else { fc_part };
                let others_agree = active.iter().filter(|a| a.as_str() != pos.receiver.as_str() && a.as_str() != fcs.as_str()).all(|a| p.others.get(a).copied().unwrap_or(0) == share);
                if fc_part == fc && amount - cand + share == total_to_owner && others_agree {
                    found = Some((cand, share));
                    break;
                }
            }
            match found {
                Some((pen, share)) => {
                    // as the only active farm owner the position's owner gets back exactly what
                    // an odd penalty charges more than the even one below it: balances cannot
                    // tell P = 2fc - 1 from P = 2fc
                    self.parity_unknown.set(n == 1 && pen > 0);
                    p.owner = amount - pen;
                    if share > 0 {
                        p.others.insert(pos.receiver.to_string(), share);
                    }
                }
                None => owner_inconsistent = true,
            }
        }
        let others_sum: u128 = p.others.values().sum();
        let penalty = amount.checked_sub(p.owner)?;
        let mut errs = vec![];
        if owner_inconsistent {
            errs.push(format!("the owner (who also owns an active farm on this LP token) received {} in total, which no penalty split between it, the other farm owners and the fee collector ({}) explains", p.owner, p.fee_collector));
        }
        if p.owner + p.fee_collector + others_sum > amount {
            errs.push(format!("owner {} + penalty payouts {} exceed the recorded amount {amount}", p.owner, p.fee_collector + others_sum));
        }
        if p.fee_collector + others_sum > penalty {
            errs.push(format!("penalty payouts {} exceed the penalty {penalty}", p.fee_collector + others_sum));
        }
        if bi(penalty) * 10 > bi(amount) * 9 {
            errs.push(format!("penalty {penalty} above 90% of {amount}"));
        }
        let base = f.cfg.emergency_unlock_penalty.atomics().u128();
        let unlocked = pos.expiring_at.map(|e| e <= now).unwrap_or(false);
        if unlocked {
            if penalty != 0 || p.fee_collector + others_sum != 0 {
                errs.push(format!("penalty {penalty} charged after the position had unlocked"));
            }
        } else {
            let frac = exact_fraction(pos, base, now);
            let exact = Q::int(amount).mul(&frac);
            let slack = bi(2) + bi(amount) / pow10(15);
            let dev = (bi(penalty) - exact.floor()).abs();
            if dev > slack {
                errs.push(format!("penalty {penalty} differs from amount x min(0.9, base x remaining/duration x multiplier) = {} by {dev}", exact.floor()));
            }
        }
        for (to, amt) in &p.others {
            if to.contains(':') {
                errs.push(format!("other tokens moved: {to} {amt}"));
            } else if !active.contains(to) {
                errs.push(format!("{} received {amt} of the penalty without owning an active farm on this LP token", w.name_of(to)));
            }
        }
        if penalty > 0 && !unlocked {
            if active.is_empty() {
                if p.fee_collector != penalty {
                    errs.push(format!("no active farm: fee collector got {} of the penalty {penalty}", p.fee_collector));
                }
            } else {
                let half = penalty / 2;
                let share = half / active.len() as u128;
                if share > 0 {
                    for a in &active {
                        if p.others.get(a).copied().unwrap_or(0) != share && *a != fcs {
                            errs.push(format!("farm owner {} got {} instead of the equal share {share}", w.name_of(a), p.others.get(a).copied().unwrap_or(0)));
                        }
                    }
                    if active.contains(&fcs) && pos.receiver.as_str() != fcs.as_str() {
                        // the fee collector also owns an active farm: its half and its owner's share
                        if p.fee_collector != penalty - half + share {
                            errs.push(format!("fee collector (also an active farm owner) got {} instead of its half {} plus the share {share}", p.fee_collector, penalty - half));
                        }
                    } else if p.fee_collector < penalty - half && !active.contains(&fcs) {
                        errs.push(format!("fee collector got {} < its half {}", p.fee_collector, penalty - half));
                    }
                } else if p.fee_collector != penalty {
                    errs.push(format!("shares round to zero: fee collector got {} of the penalty {penalty}", p.fee_collector));
                }
            }
        }
        let rem_bucket = pos.expiring_at.map(|e| (e.saturating_sub(now) * 4 / pos.unlocking_duration.max(1)) as i64).unwrap_or(-1);
        let abs = hash_of(&(how, (amount as f64).log10() as i32, pos.unlocking_duration / 4_000_000, pos.open, rem_bucket, active.len().min(3), base / 10u128.pow(16)));
        if errs.is_empty() {
            rep.held("penalty", abs, || {
                json!({"observed_via": how, "amount": amount.to_string(), "unlocking_duration": pos.unlocking_duration, "open": pos.open, "expiring_at": pos.expiring_at, "now": now,
                       "base_penalty": f.cfg.emergency_unlock_penalty.to_string(), "penalty": penalty.to_string(), "owner_got": p.owner.to_string(), "fee_collector": p.fee_collector.to_string(),
                       "farm_owners": p.others.iter().map(|(k, v)| format!("{}:{v}", w.name_of(k))).collect::<Vec<_>>(), "active_farm_owners": active.len()})
            });
        } else {
            rep.failed(
                "penalty",
                None,
                format!("emergency withdrawal of {} LP (duration {}, open {}): {}", amount, pos.unlocking_duration, pos.open, errs.join("; ")),
                witness(json!({"position": format!("{pos}"), "now": now, "base_penalty": f.cfg.emergency_unlock_penalty.to_string(), "owner_got": p.owner.to_string(), "fee_collector": p.fee_collector.to_string(), "others": p.others})),
            );
        }
        Some(penalty)
    }

    fn probe(&mut self, w: &mut World, s: &Step, rep: &mut Reporter) {
        let pos = match s.fpost.positions.values().collect::<Vec<_>>().choose(&mut self.rng) {
            Some(p) => (*p).clone(),
            None => return,
        };
        let orig = w.snapshot();
        // now and then the fee collector is first re-pointed at the owner of an active farm on the
        // position's LP token (it then collects its half and a farm owner's share)
        let mut how = "forked exit at a chosen time";
        if self.rng.gen_range(0..3) == 0 {
            let cur = s.fpost.epoch.unwrap_or(0);
            let owners: Vec<Addr> = s.fpost.farms.values().filter(|fa| fa.lp_denom == pos.lp_asset.denom && fa.start_epoch <= cur && fa.owner != pos.receiver).map(|fa| fa.owner.clone()).collect();
            if let Some(o) = owners.choose(&mut self.rng) {
                let admin = w.owner.clone();
                let o = o.to_string();
                if w.apply(&crate::wfarm::fm_config_op(&admin, |p| p.fee_collector_addr = Some(o.clone()))).is_ok() {
                    how = "forked exit at a chosen time, fee collector re-pointed at a farm owner";
                }
            }
        }
        let snap = w.snapshot();
        let owner: Addr = pos.receiver.clone();
        let now = w.now();
        // times: for a closed position between now and unlock (+1 beyond); an open one: now and later
        let end = pos.expiring_at.unwrap_or(now + pos.unlocking_duration);
        let mut times: Vec<u64> = vec![now];
        if end > now {
            for _ in 0..4 {
                times.push(self.rng.gen_range(now..=end));
            }
            times.push(end - 1);
        }
        times.push(end);
        times.push(end + 1);
        times.sort();
        times.dedup();
        let mut last: Option<(u64, u128)> = None;
        let mut last_parity_unknown = false;
        for t in times {
            w.restore(&snap);
            if t > now {
                w.set_time(t);
            }
            let f = fobserve(w);
            let out = w.apply(&pos_op(&owner, PositionAction::Withdraw { identifier: pos.identifier.clone(), emergency_unlock: Some(true) }, vec![]));
            if !out.is_ok() {
                // amounts above ~3.4e20 overflow the 18-digit penalty computation and abort: a
                // clean refusal, counted
                rep.count("penalty", if out.is_abort() { "aborted_(amount_overflows_fixed_point)" } else { "refused" });
                if !out.is_abort() && pos.lp_asset.amount.u128() < 300_000_000_000_000_000_000 {
                    rep.failed("exit_possible", None, format!("owner could not leave through the emergency exit: {}", out.short()), witness(json!({"position": format!("{pos}"), "time": t})));
                }
                continue;
            }
            if let Some(pen) = self.judge(w, &f, &pos, t, &out, how, rep) {
                // never increases as time passes after closing (same position, same state)
                let slack = if self.parity_unknown.get() || last_parity_unknown { 1 } else { 0 };
                last_parity_unknown = self.parity_unknown.get();
                if let (Some((t0, p0)), false) = (last, pos.open) {
                    if pen > p0 + slack {
                        rep.failed("decays", None, format!("penalty grew from {p0} at t={t0} to {pen} at t={t}"), witness(json!({"position": format!("{pos}")})));
                    } else {
                        rep.held("decays", hash_of(&(p0 == pen, pen == 0)), || json!({"t0": t0, "penalty0": p0.to_string(), "t1": t, "penalty1": pen.to_string()}));
                    }
                }
                last = Some((t, pen));
            }
        }
        w.restore(&orig);
    }
}

impl C09 {
    /// forked: more than ten farms on the position's LP token, the last one (by identifier)
    /// owned by somebody who owns none of the others; every owner of an active farm must get
    /// its share
    fn many_farms_probe(&mut self, w: &mut World, s: &Step, rep: &mut Reporter) {
        use crate::wfarm::{farm_funds, farm_op, fm_config_op};
        use cosmwasm_std::coin;
        use mantra_dex_std::farm_manager::{FarmAction, FarmParams};
        let cur = match s.fpost.epoch {
            Some(e) => e,
            None => return,
        };
        let now = w.now();
        let cands: Vec<&Position> = s.fpost.positions.values().filter(|p| p.expiring_at.map(|e| e > now + 2 * 86_400).unwrap_or(true) && p.lp_asset.amount.u128() >= 1_000 && p.lp_asset.amount.u128() < 10u128.pow(20)).collect();
        let pos = match cands.choose(&mut self.rng) {
            Some(p) => (*p).clone(),
            None => return,
        };
        let others: Vec<Addr> = w.users.iter().filter(|u| **u != pos.receiver).cloned().collect();
        if others.len() < 2 {
            return;
        }
        let (a, b) = (others[0].clone(), others[1].clone());
        let snap = w.snapshot();
        let owner = w.owner.clone();
        let fee = coin(0, "uom");
        if !w.apply(&fm_config_op(&owner, |p| {
            p.max_concurrent_farms = Some(s.fpost.cfg.max_concurrent_farms.max(16));
            p.create_farm_fee = Some(fee.clone());
        })).is_ok() {
            w.restore(&snap);
            return;
        }
        let lp = pos.lp_asset.denom.clone();
        self.probe_n += 1;
        let reward = coin(2_000, "uusdc");
        let mk = |id: String| FarmAction::Create { params: FarmParams { lp_denom: lp.clone(), start_epoch: Some(cur + 1), preliminary_end_epoch: Some(cur + 5), curve: None, farm_asset: reward.clone(), farm_identifier: Some(id) } };
        let mut made = 0;
        for k in 0..11 {
            if w.apply(&farm_op(&a, mk(format!("pa{}x{:02}", self.probe_n, k)), farm_funds(&reward, &fee))).is_ok() {
                made += 1;
            }
        }
        let last = w.apply(&farm_op(&b, mk(format!("pz{}", self.probe_n)), farm_funds(&reward, &fee))).is_ok();
        if made < 10 || !last {
            w.restore(&snap);
            rep.count("penalty", "many_farms_probe_setup_refused");
            return;
        }
        w.advance(w.cfg.epoch_duration);
        let f = fobserve(w);
        let t = w.now();
        let out = w.apply(&pos_op(&pos.receiver, PositionAction::Withdraw { identifier: pos.identifier.clone(), emergency_unlock: Some(true) }, vec![]));
        if out.is_ok() {
            self.judge(w, &f, &pos, t, &out, "forked exit with 12+ farms on the LP token", rep);
        }
        w.restore(&snap);
    }
}

impl C09 {
    /// forked: the epoch manager's owner re-schedules the genesis into the future, so that there
    /// is no current epoch. Which farms are "currently active" cannot be decided then; an
    /// emergency exit that is executed all the same is judged against the farms that were active
    /// when epochs were last defined (a refusal leaves nothing to judge)
    fn undefined_epoch_probe(&mut self, w: &mut World, s: &Step, rep: &mut Reporter) {
        use cosmwasm_std::Uint64;
        use mantra_dex_std::epoch_manager as em;
        let now = w.now();
        let cands: Vec<&Position> = s.fpost.positions.values().filter(|p| p.expiring_at.map(|e| e > now + 86_400).unwrap_or(true) && p.lp_asset.amount.u128() >= 1_000 && p.lp_asset.amount.u128() < 10u128.pow(20)).collect();
        let pos = match cands.choose(&mut self.rng) {
            Some(p) => (*p).clone(),
            None => return,
        };
        let snap = w.snapshot();
        let before = fobserve(w);
        let owner = w.owner.clone();
        let c = w.em.clone();
        let r = w.exec(&owner, &c, &em::ExecuteMsg::UpdateConfig { epoch_config: Some(em::EpochConfig { duration: Uint64::new(w.cfg.epoch_duration), genesis_epoch: Uint64::new(now + 10 * 86_400) }) }, &[]);
        if !r.is_ok() || fobserve(w).epoch.is_some() {
            rep.count("penalty", "undefined_epoch_probe: could not remove the current epoch");
            w.restore(&snap);
            return;
        }
        let out = w.apply(&pos_op(&pos.receiver, PositionAction::Withdraw { identifier: pos.identifier.clone(), emergency_unlock: Some(true) }, vec![]));
        if out.is_ok() {
            self.judge(w, &before, &pos, now, &out, "forked exit while the epoch manager reports no current epoch", rep);
        } else {
            rep.held("penalty", hash_of(&"no_current_epoch_refused"), || json!({"observed_via": "forked exit while the epoch manager reports no current epoch", "result": out.short()}));
        }
        w.restore(&snap);
    }
}

impl Monitor for C09 {
    fn step(&mut self, w: &mut World, s: &Step, rep: &mut Reporter) {
        if let (Op::Fm { msg: fm::ExecuteMsg::ManagePosition { action: PositionAction::Withdraw { identifier, emergency_unlock: Some(true) } }, .. }, true) = (s.op, s.out.is_ok()) {
            if let Some(pos) = s.fpre.positions.get(identifier) {
                self.judge(w, s.fpre, pos, s.fpre.time, s.out, "workload", rep);
            }
        }
        if s.idx % self.probe_every == self.probe_every - 1 {
            self.probe(w, s, rep);
        }
        if s.idx % 60 == 41 {
            self.many_farms_probe(w, s, rep);
        }
        if s.idx % 60 == 13 {
            self.undefined_epoch_probe(w, s, rep);
        }
        let _ = (BigInt::zero().is_negative(), 0u8.is_even());
    }
}
