//! C02 — deposits and withdrawals never dilute other liquidity providers.

use std::collections::BTreeMap;

use cosmwasm_std::{coin, Addr};
use mantra_dex_std::pool_manager as pm;
use num_bigint::BigInt;
use num_integer::Integer;
use num_traits::{Signed, ToPrimitive, Zero};
use rand::rngs::StdRng;
use rand::seq::SliceRandom;
use rand::{Rng, SeedableRng};
use serde_json::json;

use crate::exact::{bi, isqrt};
use crate::ops::{witness, Monitor, Op, PoolView, Step};
use crate::poolev::{jres, parse_events, timeline, PoolEv};
use crate::report::{hash_of, Reporter};
use crate::ssx::{d_units, skew};
use crate::world::World;
use crate::wpool::{log_uniform, withdraw_op};

pub struct C02 {
    rng: StdRng,
    locked: BTreeMap<String, u128>,
    drain_n: u64,
}

impl C02 {
    pub fn new(seed: u64) -> C02 {
        C02 {
            rng: StdRng::seed_from_u64(seed ^ 0xC02),
            locked: BTreeMap::new(),
            drain_n: 0,
        }
    }
}

fn mag(x: u128) -> i32 {
    if x == 0 {
        -1
    } else {
        (x as f64).log10() as i32
    }
}

impl C02 {
    fn redeemable(&mut self, w: &mut World, s: &Step, rep: &mut Reporter) {
        // a holder of LP of a pool with withdrawals enabled
        let mut holders: Vec<(Addr, &PoolView, u128)> = vec![];
        for p in s.post.pools.values() {
            if !p.info.status.withdrawals_enabled || p.supply == 0 {
                continue;
            }
            for a in w.users.iter().chain([&w.owner, &w.hostile]) {
                let b = s.post.bal(a, &p.info.lp_denom);
                if b > 0 {
                    holders.push((a.clone(), p, b));
                }
            }
        }
        let (who, p, bal) = match holders.choose(&mut self.rng) {
            Some(h) => h.clone(),
            None => return,
        };
        let amt = match self.rng.gen_range(0..5) {
            0 => bal,
            1 => self.rng.gen_range(1..1000u128).min(bal),
            _ => log_uniform(&mut self.rng, 1, bal),
        };
        // exact worth of `amt` LP in each asset
        let sup = bi(p.supply);
        let shares: Vec<(BigInt, BigInt)> = p
            .info
            .assets
            .iter()
            .map(|c| (bi(c.amount.u128()) * bi(amt)).div_mod_floor(&sup))
            .collect();
        let worth_one = shares.iter().any(|(q, _)| !q.is_zero());
        if !worth_one {
            rep.count("redeemable", "amount_worth_less_than_one_unit_not_judged");
            return;
        }
        let snap = w.snapshot();
        // "while withdrawals are enabled": whatever the other two switches say
        let other_switches_off = self.rng.gen_range(0..3) == 0;
        if other_switches_off {
            let owner = w.owner.clone();
            let (s_off, d_off) = (self.rng.gen_bool(0.5), true);
            w.apply(&crate::wpool::toggle_op(&owner, &p.info.pool_identifier, Some(!s_off), Some(!d_off), None));
        }
        let out = w.apply(&withdraw_op(&who, &p.info.pool_identifier, coin(amt, p.info.lp_denom.clone())));
        w.restore(&snap);
        let abs = hash_of(&(&p.info.pool_identifier, mag(amt), mag(p.supply)));
        if out.is_ok() {
            rep.held("redeemable", abs, || {
                json!({"pool": p.info.pool_identifier, "lp_amount": amt.to_string(), "supply": p.supply.to_string(), "holder": w.name_of(who.as_str())})
            });
        } else {
            // known precision finding: burned/supply is truncated to 18 decimals, so an amount
            // worth [1, 1 + R*1e-18) units of every asset is computed as worth 0
            let e18 = bi(10u128.pow(18));
            let in_band = p.info.assets.iter().all(|c| {
                let r = bi(c.amount.u128());
                // R*amt/S < 1 + R*1e-18   <=>   R*amt*1e18 < S*(1e18 + R)
                &r * bi(amt) * &e18 < &sup * (&e18 + &r)
            });
            let kf = if in_band && out.err_msg().unwrap_or("").contains("empty coins") {
                Some("KF-C02-a")
            } else {
                None
            };
            rep.failed(
                "redeemable",
                kf,
                format!(
                    "holder could not redeem {amt} LP of {} (supply {}, reserves {:?}): {}",
                    p.info.pool_identifier,
                    p.supply,
                    p.reserves(),
                    out.short()
                ),
                witness(json!({"pool": p.info.pool_identifier, "lp_amount": amt.to_string(), "supply": p.supply.to_string(),
                               "reserves": p.reserves().iter().map(|x| x.to_string()).collect::<Vec<_>>(), "error": out.short()})),
            );
        }
    }
}

impl Monitor for C02 {
    fn step(&mut self, w: &mut World, s: &Step, rep: &mut Reporter) {
        self.judge(w, s, rep);
        // ---- clause 5: any amount worth at least one unit can be redeemed (forked)
        if s.idx % 3 == 0 {
            self.redeemable(w, s, rep);
        }
        // ---- forked: every provider leaves, somebody re-seeds the pool
        if s.idx % 40 == 17 {
            self.drain_and_reseed(w, s, rep);
        }
    }
}

impl C02 {
    /// one message executed in a fork and judged like any other
    fn forked(&mut self, w: &mut World, op: &Op, idx: usize, rep: &mut Reporter) -> bool {
        let pre = crate::ops::observe(w);
        let fpre = crate::wfarm::fobserve(w);
        let pre_snap = w.snapshot();
        let out = w.apply(op);
        let post = crate::ops::observe(w);
        let fpost = crate::wfarm::fobserve(w);
        let st = Step { idx, op, pre_snap: &pre_snap, pre: &pre, out: &out, post: &post, fpre: &fpre, fpost: &fpost };
        self.judge(w, &st, rep);
        out.is_ok()
    }

    /// forked: every holder withdraws everything (only the locked minimum - and whatever is
    /// locked in the farm manager - remains, backed by dust reserves that carry all the fees the
    /// pool ever earned), then somebody deposits again, and leaves again
    fn drain_and_reseed(&mut self, w: &mut World, s: &Step, rep: &mut Reporter) {
        use crate::wpool::{create_pool_op, pool_fee, provide_op, swap_op};
        use cosmwasm_std::Decimal;
        use mantra_dex_std::pool_manager::PoolType;
        let snap = w.snapshot();
        let saved_locked = self.locked.clone();
        self.drain_n += 1;
        let holders: Vec<Addr> = w.users.iter().chain([&w.owner, &w.hostile]).cloned().collect();
        // every other time the pool is a fresh one with high fees (so that the value per LP
        // token grows visibly) created in the fork: same decimals, mixed decimals, both types
        let fresh = self.drain_n % 2 == 0;
        let id: String = if fresh {
            let sets: [&[&str]; 6] = [&["uusdc", "uusdt"], &["uom", "uusdc", "uusdt"], &["udai", "ueth"], &["uusdc", "udai"], &["uusdc", "uusdt", "uwbtc", "udai"], &["uom", "ueth"]];
            let k = (self.drain_n / 2) as usize % sets.len();
            let ty = if k == 5 || self.rng.gen_range(0..5) == 0 && sets[k].len() == 2 { PoolType::ConstantProduct } else { PoolType::StableSwap { amp: *[10u64, 85, 100, 2000].choose(&mut self.rng).unwrap() } };
            let fees = pool_fee(self.rng.gen_range(0..50), self.rng.gen_range(100..1500), 0, &[]);
            let name = format!("dr{}", self.drain_n);
            let creator = holders[0].clone();
            let mut idx = s.idx;
            if !self.forked(w, &create_pool_op(w, &creator, sets[k], ty, fees, Some(&name)), idx, rep) {
                self.locked = saved_locked;
                w.restore(&snap);
                return;
            }
            let pid = format!("o.{name}");
            // two providers
            for h in holders.iter().take(2) {
                let funds: Vec<cosmwasm_std::Coin> = sets[k]
                    .iter()
                    .map(|d| {
                        let dec = w.cfg.denoms.iter().find(|(x, _)| x == d).map(|(_, c)| *c).unwrap_or(6);
                        coin(10u128.pow(dec as u32) * self.rng.gen_range(1_000..2_000_000u128), d.to_string())
                    })
                    .collect();
                idx += 1;
                self.forked(w, &provide_op(h, &pid, funds, None, None, None, None, None), idx, rep);
            }
            pid
        } else {
            let mut cands: Vec<&PoolView> = s.post.pools.values().filter(|p| p.supply > 0 && p.info.status.withdrawals_enabled && p.info.status.deposits_enabled).collect();
            if cands.is_empty() {
                return;
            }
            // prefer pools none of whose LP is locked in the farm manager: their supply falls
            // to exactly the locked minimum
            cands.sort_by_key(|p| (s.post.bal(&w.fm, &p.info.lp_denom) > 0, p.info.pool_identifier.clone()));
            let free = cands.iter().filter(|p| s.post.bal(&w.fm, &p.info.lp_denom) == 0).count();
            let p = if free > 0 && self.rng.gen_range(0..4) != 0 { cands[self.rng.gen_range(0..free)] } else { cands[self.rng.gen_range(0..cands.len())] };
            p.info.pool_identifier.clone()
        };
        let view = crate::ops::observe(w);
        let p = match view.pools.get(&id) {
            Some(p) if p.supply > 0 => p.clone(),
            _ => {
                self.locked = saved_locked;
                w.restore(&snap);
                return;
            }
        };
        // churn: large swaps back and forth leave their swap fees in the pool
        if p.info.status.swaps_enabled {
            let trader = holders[2].clone();
            let n = p.info.asset_denoms.len();
            for r in 0..self.rng.gen_range(2..10usize) {
                let cur = crate::ops::observe(w);
                let q = match cur.pools.get(&id) {
                    Some(q) => q,
                    None => break,
                };
                let i = r % n;
                let j = (r + 1) % n;
                let res = q.info.assets.iter().find(|c| c.denom == q.info.asset_denoms[i]).map(|c| c.amount.u128()).unwrap_or(0);
                let amt = res / self.rng.gen_range(3..20u128);
                if amt == 0 {
                    continue;
                }
                let op = swap_op(&trader, &id, coin(amt, q.info.asset_denoms[i].clone()), &q.info.asset_denoms[j], None, Some(Decimal::percent(50)), None);
                let _ = w.apply(&op);
            }
        }
        for h in &holders {
            let b = w.balance(h, &p.info.lp_denom);
            if b > 0 {
                self.forked(w, &withdraw_op(h, &id, coin(b, p.info.lp_denom.clone())), s.idx, rep);
            }
        }
        let left = w.supply(&p.info.lp_denom);
        rep.count("ss_mint_bound", if left == self.locked.get(&id).copied().unwrap_or(0) { "drained_to_exactly_the_locked_minimum" } else { "drained_with_farm_locked_lp_left" });
        // re-seed: amounts of the order of one thousandth .. a million whole tokens
        let who = holders[self.rng.gen_range(0..holders.len())].clone();
        let whole = self.rng.gen_range(0..3);
        let funds: Vec<cosmwasm_std::Coin> = p
            .info
            .asset_denoms
            .iter()
            .zip(p.info.asset_decimals.iter())
            .map(|(d, dec)| {
                let unit = 10u128.pow(*dec as u32);
                let amt = match whole {
                    0 => unit * self.rng.gen_range(1..1000u128),
                    1 => log_uniform(&mut self.rng, unit / 1000 + 1, unit * 1_000_000),
                    _ => unit * 1_000 + self.rng.gen_range(0..unit),
                };
                coin(amt, d.clone())
            })
            .collect();
        let ok = self.forked(w, &provide_op(&who, &id, funds, None, None, None, None, None), s.idx, rep);
        if ok {
            rep.count("ss_mint_bound", if fresh { "deposits_into_a_drained_fresh_high_fee_pool" } else { "deposits_into_a_drained_pool" });
            let b = w.balance(&who, &p.info.lp_denom);
            if b > 0 {
                self.forked(w, &withdraw_op(&who, &id, coin(b, p.info.lp_denom.clone())), s.idx, rep);
            }
        }
        self.locked = saved_locked;
        w.restore(&snap);
    }

    /// clauses 1-4 and 6 on one executed message
    fn judge(&mut self, w: &mut World, s: &Step, rep: &mut Reporter) {
        // ---- clause 1: who creates and destroys LP
        let evs = if s.out.is_ok() { parse_events(s.out, &w.pm).unwrap_or_default() } else { vec![] };
        let mut minted_by_pool: BTreeMap<String, u128> = BTreeMap::new();
        let mut burned_by_pool: BTreeMap<String, u128> = BTreeMap::new();
        for e in &evs {
            match e {
                PoolEv::Provide { pool, added_shares, .. } => *minted_by_pool.entry(pool.clone()).or_default() += added_shares,
                PoolEv::Withdraw { pool, withdrawn_shares, .. } => *burned_by_pool.entry(pool.clone()).or_default() += withdrawn_shares,
                _ => {}
            }
        }
        for (id, p) in &s.post.pools {
            let before = s.pre.pools.get(id).map(|q| q.supply).unwrap_or(0);
            let after = p.supply;
            if before == 0 && after > 0 {
                let held = s.post.bal(&w.pm, &p.info.lp_denom).saturating_sub(s.pre.bal(&w.pm, &p.info.lp_denom));
                self.locked.insert(id.clone(), held);
            }
            if after == before {
                continue;
            }
            let is_provide = matches!(s.op, Op::Pm { msg: pm::ExecuteMsg::ProvideLiquidity { pool_identifier, .. }, .. } if pool_identifier == id);
            let is_withdraw = matches!(s.op, Op::Pm { msg: pm::ExecuteMsg::WithdrawLiquidity { pool_identifier }, .. } if pool_identifier == id);
            let abs = hash_of(&(id, after > before, before == 0));
            let ok = if after > before {
                let exp = minted_by_pool.get(id).copied().unwrap_or(0) + if before == 0 { self.locked.get(id).copied().unwrap_or(0) } else { 0 };
                is_provide && after - before == exp
            } else {
                is_withdraw && before - after == burned_by_pool.get(id).copied().unwrap_or(0)
            };
            if ok {
                rep.held("lp_mint_sources", abs, || json!({"pool": id, "supply_before": before.to_string(), "supply_after": after.to_string(), "by": s.op.kind()}));
            } else {
                rep.failed(
                    "lp_mint_sources",
                    None,
                    format!("LP supply of {id} changed {before} -> {after} in a {} (events: minted {:?}, burned {:?})", s.op.kind(), minted_by_pool.get(id), burned_by_pool.get(id)),
                    witness(json!({"pool": id, "before": before.to_string(), "after": after.to_string()})),
                );
            }
        }

        // ---- clause 6: minimum liquidity stays locked
        for (id, p) in &s.post.pools {
            if p.supply > 0 || p.info.assets.iter().any(|c| !c.amount.is_zero()) {
                let locked = self.locked.get(id).copied().unwrap_or(0);
                if p.supply >= locked && locked >= 1000 {
                    rep.held("min_liquidity", hash_of(&(id, mag(p.supply))), || json!({"pool": id, "supply": p.supply.to_string(), "locked_minimum": locked.to_string()}));
                } else {
                    rep.failed(
                        "min_liquidity",
                        None,
                        format!("funded pool {id}: LP supply {} below the minimum liquidity locked at the first deposit ({locked})", p.supply),
                        witness(json!({"pool": id, "supply": p.supply.to_string(), "locked": locked.to_string()})),
                    );
                }
            }
        }

        // ---- clauses 2-4 on every deposit / withdrawal transition
        if s.out.is_ok() {
            if let Ok(tl) = timeline(s.pre, s.post, &evs) {
                for t in &tl {
                    let p = match s.pre.pools.get(&t.pool) {
                        Some(p) => p,
                        None => continue,
                    };
                    let before = p.canon(&t.before);
                    let after = p.canon(&t.after);
                    let sup0 = p.supply; // swaps inside the same message do not change supply
                    match &t.ev {
                        PoolEv::Provide { added_shares, .. } => {
                            let minted = *added_shares;
                            let locked_now = if sup0 == 0 { self.locked.get(&t.pool).copied().unwrap_or(0) } else { 0 };
                            let sup1 = sup0 + minted + locked_now;
                            let deps: Vec<u128> = before.iter().zip(after.iter()).map(|(b, a)| a.saturating_sub(*b)).collect();
                            let shape = (deps.iter().filter(|d| **d > 0).count(), before.len());
                            if p.is_cp() {
                                let abs = hash_of(&("cp", &t.pool, sup0 == 0, mag(minted), shape));
                                let mut errs = vec![];
                                if sup0 == 0 {
                                    let prod = bi(deps[0]) * bi(deps[1]);
                                    if bi(minted + locked_now).pow(2) > prod || locked_now != 1000 {
                                        errs.push(format!("first deposit {:?}: minted {minted} + locked {locked_now} exceeds sqrt(a*b) = {}", deps, isqrt(&prod)));
                                    }
                                } else {
                                    for i in 0..2 {
                                        if bi(minted) * bi(before[i]) > bi(deps[i]) * bi(sup0) {
                                            errs.push(format!("minted {minted} > deposit {} x supply {sup0} / reserve {} (asset {i})", deps[i], before[i]));
                                        }
                                    }
                                    // value per share: x'y' * S^2 >= xy * S'^2
                                    let l = bi(after[0]) * bi(after[1]) * bi(sup0).pow(2);
                                    let r = bi(before[0]) * bi(before[1]) * bi(sup1).pow(2);
                                    if l < r {
                                        errs.push("sqrt(x*y)/supply decreased".to_string());
                                    }
                                }
                                if errs.is_empty() {
                                    rep.held("cp_mint_bound", abs, || json!({"pool": t.pool, "supply_before": sup0.to_string(), "deposit": jres(&t.after.iter().zip(t.before.iter()).map(|(a,b)| (a.0.clone(), a.1 - b.1)).collect::<Vec<_>>()), "minted": minted.to_string()}));
                                } else {
                                    rep.failed("cp_mint_bound", None, format!("pool {}: {}", t.pool, errs.join("; ")),
                                        witness(json!({"pool": t.pool, "before": jres(&t.before), "after": jres(&t.after), "supply_before": sup0.to_string(), "minted": minted.to_string()})));
                                }
                            } else {
                                let amp = p.amp().unwrap();
                                let decs = &p.info.asset_decimals;
                                let d1 = d_units(amp, decs, &after);
                                let abs = hash_of(&("ss", &t.pool, sup0 == 0, mag(minted), shape));
                                if sup0 == 0 {
                                    if bi(minted + locked_now) <= &d1 + 2 {
                                        rep.held("ss_mint_bound", abs, || json!({"pool": t.pool, "first_deposit": jres(&t.after), "exact_D": d1.to_string(), "minted": minted.to_string(), "locked": locked_now.to_string()}));
                                    } else {
                                        let n = before.len() as f64;
                                        let sk = skew(&after, decs);
                                        let cap = 2.0 + n * sk / 8.0;
                                        let over = (bi(minted + locked_now) - &d1).to_f64().unwrap_or(f64::INFINITY);
                                        let kf = if ((amp as f64) * n < 400.0 || sk >= 1000.0) && sk >= 50.0 && over <= cap { Some("KF-C02-b") } else { None };
                                        rep.failed("ss_mint_bound", kf, format!("pool {}: first deposit minted {} LP (incl. locked) for exact D {}", t.pool, minted + locked_now, d1),
                                            witness(json!({"pool": t.pool, "after": jres(&t.after), "exact_D": d1.to_string(), "minted_total": (minted + locked_now).to_string(), "amp": amp, "skew": sk})));
                                    }
                                } else {
                                    let d0 = d_units(amp, decs, &before);
                                    // minted * (D0-2) <= S * ((D1+2) - (D0-2))
                                    let lhs = bi(minted) * (&d0 - 2);
                                    let rhs = bi(sup0) * (&d1 + 2 - (&d0 - 2));
                                    // value per share within the granularity: (D1+2)/S' >= (D0-2)/S
                                    let vps_ok = (&d1 + 2) * bi(sup0) >= (&d0 - 2) * bi(sup1);
                                    if (lhs <= rhs || d0 <= bi(2)) && vps_ok {
                                        rep.held("ss_mint_bound", abs, || json!({"pool": t.pool, "amp": amp, "before": jres(&t.before), "after": jres(&t.after), "D0": d0.to_string(), "D1": d1.to_string(), "supply": sup0.to_string(), "minted": minted.to_string()}));
                                    } else {
                                        let n = before.len() as f64;
                                        let sk = skew(&after, decs).max(skew(&before, decs));
                                        let cap = BigInt::from((2.0 + n * sk / 8.0).min(1e30) as u128);
                                        let rhs_kf = bi(sup0) * (&d1 + 2 + &cap - (&d0 - 2 - &cap));
                                        let lhs_kf = bi(minted) * (&d0 - 2 - &cap);
                                        let mut kf = if ((amp as f64) * n < 400.0 || sk >= 1000.0) && sk >= 50.0 && lhs_kf <= rhs_kf { Some("KF-C02-b") } else { None };
                                        // KF-C02-c: the imbalance fee of an unbalanced deposit is > 100% of each asset's
                                        // deviation and explodes for an asset that is dust next to the others; it can take
                                        // such a reserve to zero, and D of a balance set containing a zero comes out too
                                        // high. Signature (mechanism, not magnitude): the pool has a swap fee, the contract's
                                        // own mint formula WITHOUT the fee stays within the bound, and the fee made the mint
                                        // larger - which a fee can never rightfully do.
                                        if kf.is_none() && !p.info.pool_fees.swap_fee.share.is_zero() {
                                            let mut info0 = p.info.clone();
                                            info0.pool_fees.swap_fee.share = cosmwasm_std::Decimal::zero();
                                            let coins = |v: &[u128]| -> Vec<cosmwasm_std::Coin> { p.info.asset_denoms.iter().zip(v.iter()).map(|(d, a)| coin(*a, d.clone())).collect() };
                                            info0.assets = coins(&before);
                                            let (o, nw) = (coins(&before), coins(&after));
                                            let r = std::panic::catch_unwind(std::panic::AssertUnwindSafe(|| pool_manager::helpers::compute_lp_mint_amount_for_stableswap_deposit(&amp, &o, &nw, cosmwasm_std::Uint128::new(sup0), &info0)));
                                            if let Ok(Ok(Some(m0))) = r {
                                                let m0 = m0.u128();
                                                if minted > m0 && bi(m0) * (&d0 - 2) <= rhs {
                                                    kf = Some("KF-C02-c");
                                                }
                                            }
                                        }
                                        rep.failed("ss_mint_bound", kf,
                                            format!("pool {}: minted {minted} LP exceeds supply {sup0} x growth of exact D ({d0} -> {d1}) beyond the 2-unit granularity", t.pool),
                                            witness(json!({"pool": t.pool, "amp": amp, "decimals": decs, "before": jres(&t.before), "after": jres(&t.after), "D0": d0.to_string(), "D1": d1.to_string(), "supply": sup0.to_string(), "minted": minted.to_string()})));
                                    }
                                }
                            }
                        }
                        PoolEv::Withdraw { withdrawn_shares, sender, .. } => {
                            let burned = *withdrawn_shares;
                            let sender_addr = Addr::unchecked(sender.clone());
                            for (k, d) in p.info.asset_denoms.iter().enumerate() {
                                let paid = before[k].saturating_sub(after[k]);
                                let got = s.post.bal(&sender_addr, d) as i128 - s.pre.bal(&sender_addr, d) as i128;
                                let abs = hash_of(&(&t.pool, k, mag(burned), mag(before[k]), burned == sup0));
                                let exact = (bi(before[k]) * bi(burned)).div_floor(&bi(sup0));
                                if got != paid as i128 {
                                    rep.failed("withdraw_bounds", None, format!("pool {}: reserve of {d} fell by {paid} but the withdrawer's balance changed by {got}", t.pool), witness(json!({"pool": t.pool})));
                                } else if bi(paid) > exact {
                                    rep.failed("withdraw_bounds", None,
                                        format!("pool {}: withdrawal of {burned}/{sup0} LP paid {paid}{d}, more than reserve x burned / supply = {exact}", t.pool),
                                        witness(json!({"pool": t.pool, "before": jres(&t.before), "burned": burned.to_string(), "supply": sup0.to_string(), "paid": paid.to_string()})));
                                } else if bi(paid) + 1 >= exact {
                                    rep.held("withdraw_bounds", abs, || json!({"pool": t.pool, "asset": d, "reserve": before[k].to_string(), "burned": burned.to_string(), "supply": sup0.to_string(), "paid": paid.to_string(), "exact_share_floor": exact.to_string()}));
                                } else {
                                    // short by more than one unit: the 18-decimal truncation of burned/supply
                                    let short = &exact - bi(paid);
                                    let band = bi(before[k]).div_floor(&bi(10u128.pow(18))) + 2;
                                    let kf = if short <= band { Some("KF-C02-a") } else { None };
                                    rep.failed("withdraw_bounds", kf,
                                        format!("pool {}: withdrawal of {burned}/{sup0} LP paid {paid}{d}, {short} units less than reserve x burned / supply = {exact}", t.pool),
                                        witness(json!({"pool": t.pool, "reserve": before[k].to_string(), "burned": burned.to_string(), "supply": sup0.to_string(), "paid": paid.to_string(), "exact": exact.to_string()})));
                                }
                            }
                        }
                        _ => {}
                    }
                }
            }
        }

        let _ = (Signed::is_negative(&BigInt::zero()),);
    }
}
