//! Per-property checks and the shared workload runners.

pub mod c01;
pub mod c02;
pub mod c03;
pub mod c04;
pub mod c12;

use std::time::Instant;

use serde_json::json;

use crate::ops::{drive_one, observe, set_ctx, Monitor};
use crate::report::{hash_of, Reporter};
use crate::world::{World, WorldCfg};
use crate::wpool::PoolGen;
use crate::RunCfg;

pub const ASSUME_CHAIN: &str = "chain = cw-multi-test 2.4 (message routing, sub-message/reply semantics, transactional rollback, bank) + the harness's token-factory model; contracts run natively, not as wasm; a Rust panic stands in for a wasm trap";
pub const ASSUME_BOUNDS: &str = "verdict covers only the executions produced by this run (seeded workload, finite histories)";

/// One shard of the W-pool workload with the given monitors.
pub fn pool_shard(
    cfg: &RunCfg,
    shard: usize,
    n_ops: usize,
    mut monitors: Vec<Box<dyn Monitor>>,
    tune: &dyn Fn(&mut PoolGen, &mut WorldCfg),
) -> Reporter {
    let mut rep = Reporter::new(&cfg.property);
    let seed = cfg.seed.wrapping_mul(1_000_003).wrapping_add(shard as u64);
    let mut gen = PoolGen::new(seed);
    let mut wcfg = WorldCfg::default();
    tune(&mut gen, &mut wcfg);
    let mut w = World::new(wcfg);
    set_ctx(format!("workload=W-pool seed={} shard={} (generator seed {})", cfg.seed, shard, seed));
    gen.scripted_prefix(&w);
    for m in monitors.iter_mut() {
        m.init(&mut w, &mut rep);
    }
    let mut obs = observe(&w);
    for i in 0..n_ops {
        let op = gen.next(&w, &obs);
        drive_one(&mut w, &op, i, &mut obs, &mut monitors, &mut rep);
        rep.transitions += 1;
        if i % 4 == 0 {
            rep.states.insert(hash_of(&w.state().data));
        }
    }
    for m in monitors.iter_mut() {
        m.finish(&mut w, &mut rep);
    }
    rep
}

pub fn run(cfg: &RunCfg, t0: Instant) -> i32 {
    match cfg.property.as_str() {
        "C01" => {
            let shards = cfg.pick(2, 32);
            let n = cfg.pick(4_000, 20_000);
            let rep = crate::run_shards(cfg, shards, |s| {
                pool_shard(cfg, s, n, vec![Box::new(c01::C01::default())], &|_, _| {})
            });
            let mut rep = rep;
            rep.floor("backing", 1_000);
            rep.floor("lp_held", 100);
            rep.finish(
                &cfg.tier,
                cfg.seed,
                "exploration",
                "W-pool: seeded random interleaving of 7 accounts' messages (swaps, routes, deposits of every shape, single-asset and locked deposits, withdrawals, pool creations, donations, config changes, malformed messages) over 6+ pools sharing denoms; the backing identity is evaluated after every message; distinct = (message kind, outcome, #pools, max pools sharing a denom)",
                &[ASSUME_CHAIN, ASSUME_BOUNDS],
                t0.elapsed().as_secs_f64(),
                json!({"shards": shards, "ops_per_shard": n}),
            )
        }
        "C03" => {
            let shards = cfg.pick(4, 32);
            let n = cfg.pick(2_500, 12_000);
            let mut rep = crate::run_shards(cfg, shards, |s| {
                pool_shard(cfg, s, n, vec![Box::new(c03::C03::new(cfg.seed * 977 + s as u64))], &|g, _| {
                    g.weights = [40, 20, 8, 10, 6, 3, 1, 1, 2];
                })
            });
            rep.floor("cp_k", 500);
            rep.floor("ss_D", 500);
            rep.floor("round_trip", 200);
            rep.finish(
                &cfg.tier,
                cfg.seed,
                "exploration",
                "W-pool (swap-heavy mix): every executed hop (direct, routed, internal swap of single-asset deposits) is judged with exact big-integer x*y resp. exact Curve D from the reserves before/after; every 6th step a forked there-and-back trade (1-3 pools, proceeds returned in 1-4 chunks) is executed and the trader's balance compared; distinct = (pool, direction, offer magnitude, path)",
                &[ASSUME_CHAIN, ASSUME_BOUNDS, "exact D resolved to 1e-6 of a normalised smallest unit; a decrease below that resolution is not reported"],
                t0.elapsed().as_secs_f64(),
                json!({"shards": shards, "ops_per_shard": n}),
            )
        }
        "C04" => {
            let shards = cfg.pick(4, 32);
            let n = cfg.pick(3_000, 15_000);
            let mut rep = crate::run_shards(cfg, shards, |s| {
                pool_shard(cfg, s, n, vec![Box::new(c04::C04::default())], &|g, _| {
                    g.weights = [40, 25, 8, 8, 6, 4, 2, 2, 3];
                })
            });
            rep.floor("hop_identity_and_fees", 1_000);
            rep.floor("bank_slice", 500);
            rep.floor("nobody_else", 500);
            rep.floor("route_chaining", 100);
            rep.finish(
                &cfg.tier,
                cfg.seed,
                "exploration",
                "W-pool (swap/route-heavy mix, fee structures 0..20% with several extra fees, receivers = sender/other user/contract account/fee collector/invalid): for every executed hop the reserve identity and 'each fee = floor(G x share) for one gross G' are checked; for every direct and routed swap the bank-event slice is matched against the exact multiset the swap must cause and every known account's balance change must be explained by it; distinct = (pool, routed, zero-fee pattern, magnitude, #fees) / (kind, hops, receiver class)",
                &[ASSUME_CHAIN, ASSUME_BOUNDS],
                t0.elapsed().as_secs_f64(),
                json!({"shards": shards, "ops_per_shard": n}),
            )
        }
        "C02" => {
            let shards = cfg.pick(4, 32);
            let n = cfg.pick(3_000, 15_000);
            let mut rep = crate::run_shards(cfg, shards, |s| {
                pool_shard(cfg, s, n, vec![Box::new(c02::C02::new(cfg.seed * 131 + s as u64))], &|g, _| {
                    g.weights = [14, 5, 30, 14, 25, 4, 2, 2, 4];
                })
            });
            rep.floor("lp_mint_sources", 500);
            rep.floor("cp_mint_bound", 150);
            rep.floor("ss_mint_bound", 150);
            rep.floor("withdraw_bounds", 500);
            rep.floor("redeemable", 300);
            rep.floor("min_liquidity", 1_000);
            rep.finish(
                &cfg.tier,
                cfg.seed,
                "exploration",
                "W-pool (deposit/withdraw-heavy mix: balanced, skewed, partial-set, dust, single-asset, locked deposits; withdrawals from 1 unit to everything): every LP supply change is attributed to a deposit/withdrawal of that pool; every deposit transition is checked against the exact share bound (constant product: cross-multiplied min-share and sqrt(xy)/S; stableswap: exact big-integer D before/after with the statement's 2-unit granularity); every withdrawal against reserve x burned / supply; every 3rd step a forked redemption of a random LP amount; distinct = (pool, first?, magnitude, deposit shape)",
                &[ASSUME_CHAIN, ASSUME_BOUNDS],
                t0.elapsed().as_secs_f64(),
                json!({"shards": shards, "ops_per_shard": n}),
            )
        }
        "C12" => {
            let shards = cfg.pick(4, 32);
            let n = cfg.pick(3_000, 15_000);
            let mut rep = crate::run_shards(cfg, shards, |s| {
                pool_shard(cfg, s, n, vec![Box::new(c12::C12::new(cfg.seed * 313 + s as u64))], &|g, _| {
                    g.weights = [40, 25, 8, 6, 6, 4, 2, 2, 3];
                })
            });
            rep.floor("sim_eq_swap", 800);
            rep.floor("route_eq", 300);
            rep.floor("reverse_cp", 500);
            rep.finish(
                &cfg.tier,
                cfg.seed,
                "exploration",
                "W-pool: for every generated Swap the state is forked, Simulation is queried and the same offer executed (50% tolerance): return, the four fee figures and the receiver's balance change must equal the quote; same for every simple route vs SimulateSwapOperations; every 2nd step ReverseSimulation on a random constant-product pool/ask and Simulation(quote+1) >= ask; distinct = (pool, offer denom, magnitude, outcome)",
                &[ASSUME_CHAIN, ASSUME_BOUNDS],
                t0.elapsed().as_secs_f64(),
                json!({"shards": shards, "ops_per_shard": n}),
            )
        }
        other => {
            eprintln!("unknown property {other}");
            2
        }
    }
}
