//! Per-property checks and the shared workload runners.

pub mod c01;

use std::time::Instant;

use serde_json::json;

use crate::ops::{drive_one, observe, set_ctx, Monitor};
use crate::report::{hash_of, Reporter};
use crate::world::{World, WorldCfg};
use crate::wpool::PoolGen;
use crate::RunCfg;

pub const ASSUME_CHAIN: &str = "chain = cw-multi-test 2.4 (message routing, sub-message/reply semantics, transactional rollback, bank) + the harness's token-factory model; contracts run natively, not as wasm; a Rust panic stands in for a wasm trap";
pub const ASSUME_BOUNDS: &str = "verdict covers only the executions produced by this run (seeded workload, finite histories)";

/// One shard of the W-pool workload with the given monitors.
pub fn pool_shard(
    cfg: &RunCfg,
    shard: usize,
    n_ops: usize,
    mut monitors: Vec<Box<dyn Monitor>>,
    tune: &dyn Fn(&mut PoolGen, &mut WorldCfg),
) -> Reporter {
    let mut rep = Reporter::new(&cfg.property);
    let seed = cfg.seed.wrapping_mul(1_000_003).wrapping_add(shard as u64);
    let mut gen = PoolGen::new(seed);
    let mut wcfg = WorldCfg::default();
    tune(&mut gen, &mut wcfg);
    let mut w = World::new(wcfg);
    set_ctx(format!("workload=W-pool seed={} shard={} (generator seed {})", cfg.seed, shard, seed));
    gen.scripted_prefix(&w);
    for m in monitors.iter_mut() {
        m.init(&mut w, &mut rep);
    }
    let mut obs = observe(&w);
    for i in 0..n_ops {
        let op = gen.next(&w, &obs);
        drive_one(&mut w, &op, i, &mut obs, &mut monitors, &mut rep);
        rep.transitions += 1;
        if i % 4 == 0 {
            rep.states.insert(hash_of(&w.state().data));
        }
    }
    for m in monitors.iter_mut() {
        m.finish(&mut w, &mut rep);
    }
    rep
}

pub fn run(cfg: &RunCfg, t0: Instant) -> i32 {
    match cfg.property.as_str() {
        "C01" => {
            let shards = cfg.pick(2, 32);
            let n = cfg.pick(4_000, 20_000);
            let rep = crate::run_shards(cfg, shards, |s| {
                pool_shard(cfg, s, n, vec![Box::new(c01::C01::default())], &|_, _| {})
            });
            let mut rep = rep;
            rep.floor("backing", 1_000);
            rep.floor("lp_held", 100);
            rep.finish(
                &cfg.tier,
                cfg.seed,
                "exploration",
                "W-pool: seeded random interleaving of 7 accounts' messages (swaps, routes, deposits of every shape, single-asset and locked deposits, withdrawals, pool creations, donations, config changes, malformed messages) over 6+ pools sharing denoms; the backing identity is evaluated after every message; distinct = (message kind, outcome, #pools, max pools sharing a denom)",
                &[ASSUME_CHAIN, ASSUME_BOUNDS],
                t0.elapsed().as_secs_f64(),
                json!({"shards": shards, "ops_per_shard": n}),
            )
        }
        other => {
            eprintln!("unknown property {other}");
            2
        }
    }
}
