//! Per-property checks and the shared workload runners.

pub mod c01;
pub mod c02;
pub mod c03;
pub mod c04;
pub mod c05;
pub mod c06;
pub mod c07;
pub mod c08;
pub mod c09;
pub mod c10;
pub mod c11;
pub mod c12;
pub mod c13;
pub mod c14;
pub mod c15;
pub mod c16;
pub mod c17;
pub mod c18;
pub mod c19;
pub mod c20;

use std::time::Instant;

use serde_json::json;

use crate::ops::{drive_one, observe, set_ctx, Monitor};
use crate::report::{hash_of, Reporter};
use crate::world::{World, WorldCfg};
use crate::wpool::PoolGen;
use crate::RunCfg;

pub const ASSUME_CHAIN: &str = "chain = cw-multi-test 2.4 (message routing, sub-message/reply semantics, transactional rollback, bank) + the harness's token-factory model; contracts run natively, not as wasm; a Rust panic stands in for a wasm trap";
pub const ASSUME_BOUNDS: &str = "verdict covers only the executions produced by this run (seeded workload, finite histories)";

/// Optional: every `every` steps the next three generated operations are executed in all six
/// orders from one snapshot and a stateless quiescent invariant is evaluated after each of them
/// (explicit exploration of interleavings of different users' messages).
pub struct PermCfg {
    pub every: usize,
    pub check: fn(&mut World, &mut Reporter, &str),
}
pub static PERM: std::sync::OnceLock<PermCfg> = std::sync::OnceLock::new();

const ORDERS: [[usize; 3]; 6] = [[0, 1, 2], [0, 2, 1], [1, 0, 2], [1, 2, 0], [2, 0, 1], [2, 1, 0]];

fn permute_group(w: &mut World, group: &[crate::ops::Op], rep: &mut Reporter) {
    let cfg = match PERM.get() {
        Some(c) => c,
        None => return,
    };
    let base = w.snapshot();
    let mut ends = std::collections::HashSet::new();
    for ord in ORDERS.iter() {
        w.restore(&base);
        let mut oks = vec![];
        for k in ord {
            let out = w.apply(&group[*k]);
            oks.push(out.is_ok());
            (cfg.check)(w, rep, &format!("order {:?} of [{}]", ord, group.iter().map(|o| o.kind()).collect::<Vec<_>>().join(", ")));
        }
        ends.insert(hash_of(&w.state().data));
        rep.gcount("interleavings_executed");
    }
    rep.gadd("interleaving_groups", 1);
    rep.gadd("interleaving_distinct_end_states", ends.len() as u64);
    w.restore(&base);
}

/// One shard of the W-pool workload with the given monitors.
pub fn pool_shard(
    cfg: &RunCfg,
    shard: usize,
    n_ops: usize,
    mut monitors: Vec<Box<dyn Monitor>>,
    tune: &dyn Fn(&mut PoolGen, &mut WorldCfg),
) -> Reporter {
    let mut rep = Reporter::new(&cfg.property);
    let seed = cfg.seed.wrapping_mul(1_000_003).wrapping_add(shard as u64);
    let mut gen = PoolGen::new(seed);
    gen.fee_variant = shard;
    let mut wcfg = WorldCfg::default();
    // vary the chain / contract configuration across shards
    wcfg.tf_fees = [vec![cosmwasm_std::coin(1_000, "uom")], vec![], vec![cosmwasm_std::coin(500, "uusdc")], vec![cosmwasm_std::coin(1_000, "uom"), cosmwasm_std::coin(300, "uusdt")]][shard % 4].clone();
    wcfg.pool_creation_fee = [cosmwasm_std::coin(1_000, "uom"), cosmwasm_std::coin(2_500, "uusdc"), cosmwasm_std::coin(0, "uom")][shard % 3].clone();
    wcfg.subsec_nanos = [0, 123_456_789, 999_999_999, 1][shard % 4];
    tune(&mut gen, &mut wcfg);
    let mut w = World::new(wcfg);
    set_ctx(format!("workload=W-pool seed={} shard={} (generator seed {})", cfg.seed, shard, seed));
    gen.scripted_prefix(&w);
    for m in monitors.iter_mut() {
        m.init(&mut w, &mut rep);
    }
    let mut obs = observe(&w);
    let mut fobs = crate::wfarm::fobserve(&w);
    let mut i = 0;
    while i < n_ops {
        let mut group = vec![gen.next(&w, &obs)];
        if let Some(pc) = PERM.get() {
            if i % pc.every == pc.every - 1 && gen.script.is_empty() {
                group.push(gen.next(&w, &obs));
                group.push(gen.next(&w, &obs));
                if gen.script.is_empty() {
                    permute_group(&mut w, &group, &mut rep);
                }
            }
        }
        for op in &group {
            drive_one(&mut w, op, i, &mut obs, &mut fobs, &mut monitors, &mut rep);
            rep.transitions += 1;
            if i % 4 == 0 {
                rep.states.insert(hash_of(&w.state().data));
            }
            i += 1;
        }
    }
    for m in monitors.iter_mut() {
        m.finish(&mut w, &mut rep);
    }
    rep
}

/// One shard of the W-farm workload with the given monitors.
pub fn farm_shard(
    cfg: &RunCfg,
    shard: usize,
    n_ops: usize,
    mut monitors: Vec<Box<dyn Monitor>>,
    tune: &dyn Fn(&mut crate::wfarm::FarmGen, &mut WorldCfg),
) -> Reporter {
    let mut rep = Reporter::new(&cfg.property);
    let seed = cfg.seed.wrapping_mul(1_000_033).wrapping_add(shard as u64);
    let mut gen = crate::wfarm::FarmGen::new(seed);
    let mut wcfg = WorldCfg::default();
    // vary the farm configuration across shards
    wcfg.max_concurrent_farms = [2, 3, 1, 12][shard % 4];
    wcfg.emergency_unlock_penalty = [cosmwasm_std::Decimal::percent(10), cosmwasm_std::Decimal::percent(2), cosmwasm_std::Decimal::percent(50), cosmwasm_std::Decimal::percent(100)][shard % 4];
    wcfg.farm_fee = [cosmwasm_std::coin(1_000, "uom"), cosmwasm_std::coin(0, "uom"), cosmwasm_std::coin(500, "uusdt")][shard % 3].clone();
    wcfg.subsec_nanos = [0, 123_456_789, 999_999_999, 1][(shard + 1) % 4];
    // epochs need not be whole days (the epoch manager only demands at least one day)
    wcfg.epoch_duration = [86_400, 86_400, 129_600, 100_003, 604_800][shard % 5];
    tune(&mut gen, &mut wcfg);
    let mut w = World::new(wcfg);
    set_ctx(format!("workload=W-farm seed={} shard={} (generator seed {})", cfg.seed, shard, seed));
    gen.scripted_prefix(&w);
    for m in monitors.iter_mut() {
        m.init(&mut w, &mut rep);
    }
    let mut obs = observe(&w);
    let mut fobs = crate::wfarm::fobserve(&w);
    let mut i = 0;
    while i < n_ops {
        let mut group = vec![gen.next(&w, &obs, &fobs)];
        if let Some(pc) = PERM.get() {
            if i % pc.every == pc.every - 1 && gen.script.is_empty() {
                group.push(gen.next(&w, &obs, &fobs));
                group.push(gen.next(&w, &obs, &fobs));
                if gen.script.is_empty() {
                    permute_group(&mut w, &group, &mut rep);
                }
            }
        }
        for op in &group {
            drive_one(&mut w, op, i, &mut obs, &mut fobs, &mut monitors, &mut rep);
            rep.transitions += 1;
            if i % 4 == 0 {
                rep.states.insert(hash_of(&w.state().data));
            }
            i += 1;
        }
    }
    for m in monitors.iter_mut() {
        m.finish(&mut w, &mut rep);
    }
    rep
}

const WPOOL_NOTE: &str = " || W-pool generator: amplifications 1..u64::MAX, registry and creator-declared decimals (0..18), fee structures 0..20% (incl. pools charging exactly one kind of fee), explicit identifiers that shadow how other pools are stored, zero / same-denom / other-denom creation and token-factory fees per shard, block times with sub-second parts, scripted 'exodus' episodes (every withdrawable holder of one pool leaves, dust trades, re-seed), degenerate self-hops, routes revisiting pools.";
const WFARM_NOTE: &str = " || W-farm generator: per-shard farm limits {1,2,3,12}, epoch durations {86400, 129600, 100003, 604800} s, sub-second block times, farms of 1..1200 epochs and practically open-ended ones (end up to u64::MAX), budgets from 1000, under-/over-funded creations, positions named with and without the contract's identifier prefix, scripted 'leave and return' episodes (claim, close everything in one LP token - some in pieces -, stay away, re-open, claim). Expansions of 1..5 epochs and of 1000, 2^32, 2^63-1, ~2^64, 2^70 epochs when the owner can pay.";

fn fin(mut rep: Reporter, cfg: &RunCfg, level: &str, rule: &str, assumptions: &[&str], t0: Instant, extra: serde_json::Value) -> i32 {
    crate::pinned::run_pinned(&cfg.property, &mut rep);
    let probes = match cfg.property.as_str() {
        "C02" => " || forked drain_and_reseed probe every 40th step (existing pool or a fresh high-fee pool: provide, churn swaps, every holder withdraws all, re-seed, leave), each forked message judged by the same clauses.",
        "C07" => " || forked many_farms_probe every 400th step (limit raised to 14, 13 farms with automatic and explicit identifiers on one LP token, three epochs, every staker claims), fed to the ledger and judged by the same clauses; long_history_probe part 3: a farm claimed to exactly zero and a late joiner with an older claim cursor; at every farm creation no staker of that LP token may already have claimed through the new farm's first epoch.",
        "C11" => " || forked drained_farm_probe every 200th step (fresh pool with one staker, divisible budget claimed to exactly zero, close by owner / contract owner / on the way of a creation, creations up to the limit), judged by the same clauses; transfers compared netted per (from, to, denom).",
        "C12" => " || every simple route is also re-executed with minimum_receive in {quote, quote-1, quote/2, 0} and another receiver: quoted amount each time; one quote/swap fork in six first switches the pool's deposits and/or withdrawals off.",
        "C13" => " || every executed route (any shape) is re-run from its pre-state with minimum_receive = delivered (must execute, same output) and delivered + 1 (must fail as a whole); an executed stableswap trade whose fee shares alone exceed the tolerance is over the limit under any reading of the pool price; forked lopsided_deposit_probe every 25th step (fresh constant-product pool at a base-unit ratio of 1e-21..1e-14 in either denom order, six off-ratio deposits under tolerances 0.1%..100%).",
        "C17" => " || one toggle in three also restates current values of the other configuration fields in the same message.",
        "C19" => " || kernel amplifications 1..u64::MAX; one case in twelve has reserves at or beyond the 128-bit normalisation edge (refusal path).",
        "C04" => " || transfers compared netted per (kind, from, to, denom); the only transfer a swap may take from its sender is the first hop's offer (one swap in 25 carries another coin); the protocol fee goes to the collector the accepted messages define (modelled, not read back from the configuration; clause fee_destination); forked lp_pool_probe every 120th step (a pool holding another pool's LP token, all four fees, swaps into and out of the factory denom).",
        "C09" => " || the penalty is recovered from what each party ends up with (independent of how transfers are batched); the fee collector is the one configured at the time of the exit, and one forked exit probe in three first re-points it at the owner of an active farm; undefined_epoch_probe every 60th step (genesis moved ahead: an executed exit is judged against the farms active when epochs were last defined).",
        "C03" => " || one there-and-back trip in three sends each leg as one routed message of 2-5 hops.",
        "C10" => " || forked many_snapshots_probe (twelve top-ups in twelve epochs without a claim, then every open position of that staker leaves through the emergency exit).",
        "C15" => " || plus a freshly deployed farm manager whose pool manager address is still empty: nobody but the owner may wire it.",
        "C16" => " || forked reuse_probe every 40th step: a taken explicit identifier requested again (same assets, other order, other assets, other count/type) under the faithful and under a lenient token factory; must be refused and leave the pool unchanged.",
        "C08" => " || the forked probe also sends locked deposits naming the probed position as stored and as typed (without the prefix), through its own pool and another one, from strangers and the owner (a deposit into a pool of another LP token must never change a position); after unlocking, the plain withdrawal must also succeed while the epoch manager reports no current epoch.",
        _ => "",
    };
    let rule = format!("{rule}{probes}{}{}", if rule.contains("W-pool") { WPOOL_NOTE } else { "" }, if rule.contains("W-farm") { WFARM_NOTE } else { "" });
    rep.finish(&cfg.tier, cfg.seed, level, &rule, assumptions, t0.elapsed().as_secs_f64(), extra)
}

fn perm_c01(w: &mut World, rep: &mut Reporter, ctx: &str) {
    // the stateless core of C01: real balance >= sum of reported reserves, for every token
    let o = observe(w);
    let mut need: std::collections::BTreeMap<String, u128> = Default::default();
    for p in o.pools.values() {
        for c in &p.info.assets {
            *need.entry(c.denom.clone()).or_default() += c.amount.u128();
        }
    }
    let bad: Vec<String> = need.iter().filter(|(d, n)| o.bal(&w.pm, d) < **n).map(|(d, n)| format!("{d}: balance {} < reserves {n}", o.bal(&w.pm, d))).collect();
    if bad.is_empty() {
        rep.held("interleavings", hash_of(&ctx), || json!({"ctx": ctx, "denoms": need.len()}));
    } else {
        rep.failed("interleavings", None, format!("{ctx}: {}", bad.join("; ")), crate::ops::witness(json!({"order": ctx})));
    }
}

fn perm_c05(w: &mut World, rep: &mut Reporter, ctx: &str) {
    let f = crate::wfarm::fobserve(w);
    let need = c05::needed(&f);
    let bad: Vec<String> = need.iter().filter(|(d, n)| w.balance(&w.fm, d) < **n).map(|(d, n)| format!("{d}: balance {} < positions + unclaimed {n}", w.balance(&w.fm, d))).collect();
    if bad.is_empty() {
        rep.held("interleavings", hash_of(&ctx), || json!({"ctx": ctx, "denoms": need.len()}));
    } else {
        rep.failed("interleavings", None, format!("{ctx}: {}", bad.join("; ")), crate::ops::witness(json!({"order": ctx})));
    }
}

fn perm_c10(w: &mut World, rep: &mut Reporter, ctx: &str) {
    let f = crate::wfarm::fobserve(w);
    let fm_addr = w.fm.to_string();
    let cur = match f.epoch {
        Some(c) => c,
        None => return,
    };
    let lps: std::collections::BTreeSet<String> = f.weights.keys().map(|(_, d)| d.clone()).collect();
    let mut bad = vec![];
    for lp in &lps {
        for e in [cur, cur + 1] {
            let total = crate::farmobs::weight_at(f.weights.get(&(fm_addr.clone(), lp.clone())), e);
            let sum: u128 = f.weights.iter().filter(|((a, d), _)| d == lp && *a != fm_addr).map(|(_, h)| crate::farmobs::weight_at(Some(h), e)).sum();
            if total < sum {
                bad.push(format!("{lp} epoch {e}: total {total} < sum of users {sum}"));
            }
        }
    }
    if bad.is_empty() {
        rep.held("interleavings", hash_of(&ctx), || json!({"ctx": ctx, "lp_tokens": lps.len()}));
    } else {
        rep.failed("interleavings", None, format!("{ctx}: {}", bad.join("; ")), crate::ops::witness(json!({"order": ctx})));
    }
}

pub fn run(cfg: &RunCfg, t0: Instant) -> i32 {
    match cfg.property.as_str() {
        "C01" => {
            let _ = PERM.set(PermCfg { every: 20, check: perm_c01 });
        }
        "C05" => {
            let _ = PERM.set(PermCfg { every: 20, check: perm_c05 });
        }
        "C10" => {
            let _ = PERM.set(PermCfg { every: 20, check: perm_c10 });
        }
        _ => {}
    }
    match cfg.property.as_str() {
        "C01" => {
            let shards = cfg.pick(2, 32);
            let n = cfg.pick(4_000, 20_000);
            let rep = crate::run_shards(cfg, shards, |s| {
                pool_shard(cfg, s, n, vec![Box::new(c01::C01::default())], &|_, _| {})
            });
            let mut rep = rep;
            rep.floor("backing", 1_000);
            rep.floor("lp_held", 100);
            fin(rep, cfg, "exploration",
                "W-pool: seeded random interleaving of 7 accounts' messages (swaps, routes, deposits of every shape, single-asset and locked deposits, withdrawals, pool creations, donations, config changes, malformed messages) over 6+ pools sharing denoms; the backing identity is evaluated after every message; every 20th step the next three generated messages are executed in all 6 orders from one snapshot and balance >= sum of reserves is evaluated after each (counters interleaving_*); distinct = (message kind, outcome, #pools, max pools sharing a denom)",
                &[ASSUME_CHAIN, ASSUME_BOUNDS],
                t0,
                json!({"shards": shards, "ops_per_shard": n}),
            )
        }
        "C03" => {
            let shards = cfg.pick(4, 32);
            let n = cfg.pick(2_500, 12_000);
            let mut rep = crate::run_shards(cfg, shards, |s| {
                pool_shard(cfg, s, n, vec![Box::new(c03::C03::new(cfg.seed * 977 + s as u64))], &|g, _| {
                    g.weights = [40, 20, 8, 10, 6, 3, 1, 1, 2];
                })
            });
            let kn = cfg.pick(40_000, 400_000);
            let krep = crate::run_shards(cfg, 16, |s| c03::cp_kernel(cfg.seed * 7001 + s as u64, kn));
            rep.merge(krep);
            rep.floor("cp_k_kernel", 100_000);
            rep.floor("cp_k", 500);
            rep.floor("ss_D", 500);
            rep.floor("round_trip", 200);
            fin(rep, cfg, "exploration",
                "W-kernel (constant product): compute_swap on 6.4e5 (quick) generated states biased to huge reserves, integer price ratios, powers of ten and dust offers, gross output <= floor(ask x offer / (pool + offer)); W-pool (swap-heavy mix): every executed hop (direct, routed, internal swap of single-asset deposits) is judged with exact big-integer x*y resp. exact Curve D from the reserves before/after; every 6th step a forked there-and-back trade (1-3 pools, proceeds returned in 1-4 chunks) is executed and the trader's balance compared; distinct = (pool, direction, offer magnitude, path)",
                &[ASSUME_CHAIN, ASSUME_BOUNDS, "exact D resolved to 1e-6 of a normalised smallest unit; a decrease below that resolution is not reported"],
                t0,
                json!({"shards": shards, "ops_per_shard": n}),
            )
        }
        "C04" => {
            let shards = cfg.pick(4, 32);
            let n = cfg.pick(3_000, 15_000);
            let mut rep = crate::run_shards(cfg, shards, |s| {
                pool_shard(cfg, s, n, vec![Box::new(c04::C04::default())], &|g, _| {
                    g.weights = [40, 25, 8, 8, 6, 4, 2, 2, 3];
                })
            });
            rep.floor("hop_identity_and_fees", 1_000);
            rep.floor("bank_slice", 500);
            rep.floor("nobody_else", 500);
            rep.floor("route_chaining", 100);
            fin(rep, cfg, "exploration",
                "W-pool (swap/route-heavy mix, fee structures 0..20% with several extra fees, receivers = sender/other user/contract account/fee collector/invalid): for every executed hop the reserve identity and 'each fee = floor(G x share) for one gross G' are checked; for every direct and routed swap the bank-event slice is matched against the exact multiset the swap must cause and every known account's balance change must be explained by it; distinct = (pool, routed, zero-fee pattern, magnitude, #fees) / (kind, hops, receiver class)",
                &[ASSUME_CHAIN, ASSUME_BOUNDS],
                t0,
                json!({"shards": shards, "ops_per_shard": n}),
            )
        }
        "C02" => {
            let shards = cfg.pick(4, 32);
            let n = cfg.pick(3_000, 15_000);
            let mut rep = crate::run_shards(cfg, shards, |s| {
                pool_shard(cfg, s, n, vec![Box::new(c02::C02::new(cfg.seed * 131 + s as u64))], &|g, _| {
                    g.weights = [14, 5, 30, 14, 25, 4, 2, 2, 4];
                })
            });
            rep.floor("lp_mint_sources", 500);
            rep.floor("cp_mint_bound", 150);
            rep.floor("ss_mint_bound", 150);
            rep.floor("withdraw_bounds", 500);
            rep.floor("redeemable", 300);
            rep.floor("min_liquidity", 1_000);
            fin(rep, cfg, "exploration",
                "W-pool (deposit/withdraw-heavy mix: balanced, skewed, partial-set, dust, single-asset, locked deposits; withdrawals from 1 unit to everything): every LP supply change is attributed to a deposit/withdrawal of that pool; every deposit transition is checked against the exact share bound (constant product: cross-multiplied min-share and sqrt(xy)/S; stableswap: exact big-integer D before/after with the statement's 2-unit granularity); every withdrawal against reserve x burned / supply; every 3rd step a forked redemption of a random LP amount; distinct = (pool, first?, magnitude, deposit shape)",
                &[ASSUME_CHAIN, ASSUME_BOUNDS],
                t0,
                json!({"shards": shards, "ops_per_shard": n}),
            )
        }
        "C12" => {
            let shards = cfg.pick(4, 32);
            let n = cfg.pick(3_000, 15_000);
            let mut rep = crate::run_shards(cfg, shards, |s| {
                pool_shard(cfg, s, n, vec![Box::new(c12::C12::new(cfg.seed * 313 + s as u64))], &|g, _| {
                    g.weights = [40, 25, 8, 6, 6, 4, 2, 2, 3];
                })
            });
            rep.floor("sim_eq_swap", 800);
            rep.floor("route_eq", 300);
            rep.floor("reverse_cp", 500);
            fin(rep, cfg, "exploration",
                "W-pool: for every generated Swap the state is forked, Simulation is queried and the same offer executed (50% tolerance): return, the four fee figures and the receiver's balance change must equal the quote; same for every simple route vs SimulateSwapOperations; every 2nd step ReverseSimulation on a random constant-product pool/ask and Simulation(quote+1) >= ask; distinct = (pool, offer denom, magnitude, outcome)",
                &[ASSUME_CHAIN, ASSUME_BOUNDS],
                t0,
                json!({"shards": shards, "ops_per_shard": n}),
            )
        }
        "C13" => {
            let shards = cfg.pick(4, 32);
            let n = cfg.pick(2_500, 12_000);
            let mut rep = crate::run_shards(cfg, shards, |s| {
                pool_shard(cfg, s, n, vec![Box::new(c13::C13::new(cfg.seed * 71 + s as u64))], &|g, _| {
                    g.weights = [40, 16, 22, 4, 6, 3, 1, 1, 3];
                })
            });
            rep.floor("swap_limit_cp", 500);
            rep.floor("swap_limit_ss", 300);
            rep.floor("belief_price", 50);
            rep.floor("minimum_receive", 50);
            rep.floor("deposit_tol_cp", 50);
            rep.floor("monotone", 300);
            rep.floor("reject_is_noop", 500);
            fin(rep, cfg, "exploration",
                "W-pool (swap/deposit-heavy, tolerances None/0/boundary/50%/>50%/>100%, belief prices around the pool price and 0, minimum_receive below/at/above): every direct swap's accept/reject decision is compared with an independently evaluated exact-rational predicate outside a boundary band equal to the floor granularity; every 4th step forked probes: exact-proportion deposits under tolerances {0,0.1%,10%,50%,100%} and >100%, monotonicity of the decision in the tolerance for swaps and constant-product deposits; state equality after every rejected trade; distinct = (pool, direction, magnitude, decision, tolerance)",
                &[ASSUME_CHAIN, ASSUME_BOUNDS, "decisions inside the boundary band (rounding granularity of the contract's own fixed-point) are counted, not judged"],
                t0,
                json!({"shards": shards, "ops_per_shard": n}),
            )
        }
        "C14" => {
            let shards = cfg.pick(4, 32);
            let n = cfg.pick(2_500, 10_000);
            let mut rep = crate::run_shards(cfg, shards, |s| {
                pool_shard(cfg, s, n, vec![Box::new(c14::C14::new())], &|g, _| {
                    g.weights = [14, 5, 12, 45, 8, 4, 2, 2, 3];
                })
            });
            rep.floor("equivalence", 500);
            rep.floor("no_buffer_left", 2_000);
            rep.floor("refused_when", 30);
            rep.floor("no_lock_for_others", 30);
            rep.floor("atomic", 500);
            fin(rep, cfg, "fault_enumeration",
                "W-pool (single-asset-heavy: odd/even amounts, both pool types, receivers, lock options, own/foreign/new position ids, slippage settings): every single-asset deposit is compared, from the same forked state, with the manual swap-half-then-deposit sequence (LP/position, reserves, supply, fee collector, burned supply, user balance modulo the odd unit); for every 3rd accepted one a failure is injected at EACH of its internal chain calls (contract entries, replies, bank sends/burns/mints, token-factory calls) and with swaps disabled, and the chain state must be bit-identical to the pre-state; the temporary buffer key is looked up after every message; distinct = (pool, denom, magnitude, parity, lock, failed call kind and index)",
                &[ASSUME_CHAIN, ASSUME_BOUNDS, "one injected failure per execution"],
                t0,
                json!({"shards": shards, "ops_per_shard": n}),
            )
        }
        "C16" => {
            let shards = cfg.pick(4, 24);
            let n = cfg.pick(2_500, 5_000);
            let mut rep = crate::run_shards(cfg, shards, |s| {
                pool_shard(cfg, s, n, vec![Box::new(c16::C16::new(cfg.seed * 17 + s as u64))], &|g, _| {
                    g.weights = [18, 8, 16, 8, 10, 30, 2, 6, 2];
                    g.max_pools = 30;
                })
            });
            rep.floor("creation_payment", 300);
            rep.floor("validity", 300);
            rep.floor("unique", 20);
            rep.floor("immutable", 5_000);
            fin(rep, cfg, "exploration",
                "W-pool (creation-heavy: valid pools and each invalid class — asset count, duplicate denoms, decimals length, amp 0, fee >= 100%, total > 20%, identifier charset/length, missing/over/extra funds — interleaved with all other operations and config changes); every creation attempt is compared with an independent well-formedness + exact-payment predicate; every 25th step a forked payment matrix: 5 token-factory fee configurations x 3 creation-fee settings x 7 fund variants with the bank slice of each accepted one; identifiers/LP denoms pairwise distinct and first-seen (assets, decimals, type, fees, LP denom) unchanged after every message; distinct = (class, #assets, type, decision) / (variant, fee configuration)",
                &[ASSUME_CHAIN, ASSUME_BOUNDS],
                t0,
                json!({"shards": shards, "ops_per_shard": n}),
            )
        }
        "C17" => {
            let shards = cfg.pick(4, 32);
            let n = cfg.pick(1_200, 6_000);
            let mut rep = crate::run_shards(cfg, shards, |s| {
                pool_shard(cfg, s, n, vec![Box::new(c17::C17::new(cfg.seed * 29 + s as u64))], &|g, _| {
                    g.weights = [25, 12, 14, 8, 10, 3, 2, 12, 3];
                })
            });
            rep.floor("switched_pool", 1_000);
            rep.floor("other_pool", 500);
            rep.floor("re_enabled", 200);
            rep.floor("new_pools_enabled", 6);
            fin(rep, cfg, "exploration",
                "W-pool with frequent toggling; every 40th step a forked probe on a random funded pool: all 8 switch combinations (set in one message or field-by-field in random order) x {direct swap, route with the pool first/middle/last, single-asset deposit, single-asset locked deposit, deposit, locked deposit, withdrawal} + {swap, deposit, withdrawal on another pool}; decision must equal (reference decision with everything enabled) AND (needed switches on), effects of allowed operations (all reserves, supplies, balances, positions) must equal the reference fork, refused ones must leave the state identical, and after re-enabling everything equals the reference; distinct = (action, combination, pool type, decision)",
                &[ASSUME_CHAIN, ASSUME_BOUNDS],
                t0,
                json!({"shards": shards, "ops_per_shard": n}),
            )
        }
        "C18" => {
            let shards = cfg.pick(4, 32);
            let n = cfg.pick(400, 4_000);
            let mut rep = crate::run_shards(cfg, shards, |s| c18::shard(cfg, s, n));
            rep.floor("id_formula", 2_000);
            rep.floor("contains_now", 2_000);
            rep.floor("monotone", 2_000);
            rep.floor("start_formula", 1_000);
            rep.floor("before_genesis_fails", 100);
            rep.floor("config_validation", 1_000);
            fin(rep, cfg, "exploration",
                "W-epoch: epoch-manager instances with random (genesis, duration) incl. genesis = now, genesis near u64::MAX, durations from one day to u64::MAX/k, block times at genesis-1, genesis, sampled boundaries k*duration -1/0/+1 (k up to 2^32), random inner points and the largest representable block time; every answer is compared with u128 arithmetic (id, start in nanoseconds, containment, +1 per boundary), overflowing cases must fail and never return a wrapped value; instantiate/update validation incl. non-owner; distinct = (position relative to boundary, magnitudes of duration/now/genesis)",
                &[ASSUME_CHAIN, ASSUME_BOUNDS, "block time limited to u64 nanoseconds (chain representation)"],
                t0,
                json!({"shards": shards, "instances_per_shard": n}),
            )
        }
        "C19" => {
            let shards = cfg.pick(16, 64);
            let n: usize = std::env::var("VERIF_N").ok().and_then(|s| s.parse().ok()).unwrap_or(cfg.pick(1_500, 40_000));
            let mut rep = crate::run_shards(cfg, shards, |s| c19::shard(cfg, s, n));
            // the deployed path: executed stableswap hops and Simulation queries of W-pool
            let dshards = cfg.pick(2, 16);
            let dn = cfg.pick(1_500, 8_000);
            let drep = crate::run_shards(cfg, dshards, |s| {
                pool_shard(cfg, s, dn, vec![Box::new(c19::Deployed::new(cfg.seed * 19 + s as u64))], &|g, _| {
                    g.weights = [40, 20, 10, 8, 8, 6, 1, 1, 2];
                })
            });
            rep.merge(drep);
            rep.floor("quote_accuracy", 10_000);
            rep.floor("d_accuracy", 3_000);
            rep.floor("never_exceeds_reserve", 10_000);
            rep.floor("fails_cleanly", 100);
            fin(rep, cfg, "exploration",
                "W-kernel + deployed path (every executed stableswap hop and one Simulation query per step of a W-pool run are judged by the same oracle). W-kernel: the production functions compute_swap (swap/quote path) and compute_d_with_pool_info (mint path) called on generated pool states: 2-4 assets, decimals from {6,8,12,18} and extremes {0,1,2}, amplification 1..1e6 (log-uniform + the deployed values), reserves 1 unit..1e30 with skew up to 1000:1, offers 1 unit..3x the reserve, zero and non-zero fee structures; each quote's gross output is compared with the exact big-integer solution of the Curve invariant (band: 2 ask units + exact value of 2 offered units), each mint-path D with the exact root (band 2); errors/aborts are counted per cause; distinct = (#assets, decimals tuple, magnitudes of amp/offer/reserve, direction)",
                &[ASSUME_BOUNDS, "functions are called natively at their pub boundary (same code the Simulation query and the deposit path execute)", "exact reference resolved to 1e-6 of a normalised smallest unit"],
                t0,
                json!({"shards": shards, "pools_per_shard": n}),
            )
        }
        "C05" => {
            let shards = cfg.pick(4, 32);
            let n = cfg.pick(2_500, 12_000);
            // every other shard runs without donations to the farm manager and with more emergency
            // exits: there the custody inequality has no slack and a single missing unit shows
            let mut rep = crate::run_shards(cfg, shards, |s| farm_shard(cfg, s, n, vec![Box::new(c05::C05::new(cfg.seed * 37 + s as u64))], &|g, _| {
                if s % 2 == 1 {
                    g.weights[11] = 0;
                    g.weights[8] += 6;
                }
            }));
            rep.floor("custody", 2_000);
            rep.floor("drain_everything", 30);
            fin(rep, cfg, "exploration",
                "W-farm: seeded interleaving of 7 accounts' farm create/expand/close, position create/expand/close (full, partial)/withdraw/emergency withdraw, claims with and without until_epoch, locked deposits through the pool manager, config changes, donations and time advances (seconds around epoch boundaries and unlock instants, whole epochs, jumps past farm expiry); rewards are paid in plain tokens, in another pool's LP token and in the locked LP token itself; after every message balance(farm manager, d) >= sum of positions + sum of (funded - claimed) over live farms (positions/farms decoded completely from raw storage); every 60th step a fork drains everything in random order; every 20th step the next three generated messages are executed in all 6 orders from one snapshot with the custody inequality evaluated after each (counters interleaving_*); distinct = (message kind, outcome, #positions, #farms, LP-reward present)",
                &[ASSUME_CHAIN, ASSUME_BOUNDS],
                t0,
                json!({"shards": shards, "ops_per_shard": n}),
            )
        }
        "C10" => {
            let shards = cfg.pick(4, 32);
            let n = cfg.pick(2_500, 12_000);
            let mut rep = crate::run_shards(cfg, shards, |s| farm_shard(cfg, s, n, vec![Box::new(c10::C10::new(cfg.seed * 41 + s as u64))], &|g, _| {
                g.weights = [12, 4, 2, 2, 20, 10, 14, 6, 6, 14, 2, 1, 6, 2];
            }));
            rep.floor("total_ge_sum", 2_000);
            rep.floor("no_open_no_weight", 2_000);
            rep.floor("curve", 150);
            rep.floor("takes_effect_next_epoch", 300);
            fin(rep, cfg, "exploration",
                "W-farm (position-heavy mix: amounts 1 unit..1e20 incl. amounts whose fractional multiplier rounds, durations 1 day..1 year incl. the three anchors, pieces, partial closes, emergency exits): after every message, for every LP token and for the running and the pending epoch, the weight in effect (latest snapshot at or before the epoch, all snapshots decoded from raw storage) of the contract must be >= the sum over all users, equal while no pieces were involved; users without open positions have no weight; every fresh single-position weight is compared with the exact rational Lagrange curve (slack 1 + amount*1e-16), bounds [1x,16x] and pairwise monotonicity over everything seen; forked sweeps vary one argument at a time; every 20th step the next three generated messages are executed in all 6 orders from one snapshot with total >= sum evaluated after each; distinct = (LP, epoch kind, #users, message kind) / (magnitude, duration bucket)",
                &[ASSUME_CHAIN, ASSUME_BOUNDS],
                t0,
                json!({"shards": shards, "ops_per_shard": n}),
            )
        }
        "C11" => {
            let shards = cfg.pick(4, 32);
            let n = cfg.pick(2_500, 12_000);
            let mut rep = crate::run_shards(cfg, shards, |s| farm_shard(cfg, s, n, vec![Box::new(c11::C11::new(cfg.seed * 43 + s as u64))], &|g, _| {
                g.weights = [16, 22, 10, 8, 8, 2, 4, 2, 2, 10, 6, 1, 2, 3];
            }));
            rep.floor("create_conservation", 200);
            rep.floor("create_exact_payment_accepted", 30);
            rep.floor("create_takes_exactly", 100);
            rep.floor("expand", 50);
            rep.floor("close", 100);
            rep.floor("limit", 1_000);
            rep.floor("limit_probe", 15);
            fin(rep, cfg, "exploration",
                "W-farm (farm-heavy mix: fee configurations zero/in the reward denom/in another denom switched by the owner, exact/over/under/extra-coin payments, explicit/generated/colliding identifiers, start/end inside and outside the allowed buffer, expansions by owner and strangers with multiples and non-multiples of the emission rate before/at/after the end, closes by owner/contract owner/stranger, creations after expiry that auto-close): the bank-event slice of every accepted creation/expansion/close is matched against the exact expected movements; forked exact-payment probes per fee configuration; forked limit probes (limit raised to a random value up to +13, farms created on one LP token until refused: exactly limit - unexpired are accepted); per-LP count of unexpired farms (own expiry computation) <= limit after every message; distinct = (fee class, auto-closed, identifier kind, #coins)",
                &[ASSUME_CHAIN, ASSUME_BOUNDS],
                t0,
                json!({"shards": shards, "ops_per_shard": n}),
            )
        }
        "C06" => {
            let shards = cfg.pick(4, 32);
            let n = cfg.pick(3_000, 14_000);
            let mut rep = crate::run_shards(cfg, shards, |s| farm_shard(cfg, s, n, vec![Box::new(c06::C06::default())], &|g, _| {
                g.weights = [18, 8, 3, 2, 12, 6, 8, 4, 3, 26, 1, 1, 3, 2];
            }));
            rep.floor("no_overpay", 400);
            rep.floor("cumulative_bound", 2_000);
            rep.floor("no_starvation", 400);
            fin(rep, cfg, "exploration",
                "W-farm (claim-heavy mix; until_epoch = none / current / last claimed / in between / future / before the last claim): an independent ledger records, per user and LP token, the weight in effect per epoch from the observed effect of each position operation (never from the claim path) and its own claim cursor; every successful claim's bank delta per reward denom must be <= the sum over farm-epochs of floor(emission x weight / max(total, sum of users)); a claim refused as 'farm exhausted' although the ledger says it is affordable is starvation; per farm claimed <= rate x elapsed epochs and <= budget after every message; distinct = (until given, cursor present, span, #denoms)",
                &[ASSUME_CHAIN, ASSUME_BOUNDS],
                t0,
                json!({"shards": shards, "ops_per_shard": n}),
            )
        }
        "C07" => {
            let shards = cfg.pick(4, 32);
            let n = cfg.pick(3_000, 14_000);
            let mut rep = crate::run_shards(cfg, shards, |s| farm_shard(cfg, s, n, vec![Box::new(c07::C07::new(cfg.seed * 53 + s as u64))], &|g, _| {
                g.weights = [18, 8, 3, 2, 12, 6, 8, 4, 3, 26, 1, 1, 3, 2];
            }));
            rep.floor("query_equals_claim", 600);
            rep.floor("share_exact", 200);
            rep.floor("schedule_independence", 8);
            fin(rep, cfg, "exploration",
                "W-farm (claim-heavy mix, users holding several LP tokens, several farms per LP token): before every claim the Rewards query is evaluated on the forked pre-state and compared with the claim's bank delta; every payment is compared with the ledger's sum over farm-epochs of floor(emission x user weight / contract total weight) (never more; less by under one unit per farm-epoch); every 50th step a frozen future (2-7 epochs, other users opening/topping up positions) is replayed from one snapshot under three claim schedules for one user (every epoch / once at the end / random split with until_epoch) and cumulative payouts per denom, and every other user's pending rewards, must coincide; distinct = (span, #denoms, cursor, until given)",
                &[ASSUME_CHAIN, ASSUME_BOUNDS],
                t0,
                json!({"shards": shards, "ops_per_shard": n}),
            )
        }
        "C08" => {
            let shards = cfg.pick(4, 32);
            let n = cfg.pick(2_500, 12_000);
            let mut rep = crate::run_shards(cfg, shards, |s| farm_shard(cfg, s, n, vec![Box::new(c08::C08::new(cfg.seed * 59 + s as u64))], &|g, _| {
                g.weights = [14, 4, 2, 2, 18, 10, 14, 12, 4, 10, 1, 1, 6, 2];
            }));
            rep.floor("authz", 2_000);
            rep.floor("timing", 150);
            rep.floor("exact_return", 40);
            rep.floor("split_conservation", 100);
            rep.floor("non_interference", 2_000);
            rep.floor("ids_unique", 200);
            rep.finish_check();
            fin(rep, cfg, "exploration",
                "W-farm (position-heavy mix: explicit/generated/colliding identifiers, receivers, pieces, partial closes of 1 unit..all, withdrawals by owners and strangers, locked deposits through the pool manager into own/foreign/new positions); every 25th step a forked probe takes one existing position and attempts close / withdraw / emergency withdraw / top-up / create-for-the-owner from EVERY account (owner, other users, contract owner, farm owners, a contract account, the fee collector) and locked deposits into it via the pool manager, then closes it and withdraws at unlock-1s, unlock, unlock+1s; on real traffic every changed position must belong to the sender, partial closes must conserve the owner's recorded LP, normal withdrawals must pay exactly the recorded amount once; distinct = (action, role, decision) / (timing label)",
                &[ASSUME_CHAIN, ASSUME_BOUNDS], t0, json!({"shards": shards, "ops_per_shard": n}))
        }
        "C09" => {
            let shards = cfg.pick(4, 32);
            let n = cfg.pick(2_500, 12_000);
            let mut rep = crate::run_shards(cfg, shards, |s| farm_shard(cfg, s, n, vec![Box::new(c09::C09::new(cfg.seed * 61 + s as u64))], &|g, _| {
                g.weights = [14, 8, 2, 2, 18, 8, 12, 4, 14, 8, 4, 1, 3, 2];
            }));
            rep.floor("penalty", 800);
            rep.floor("decays", 300);
            rep.finish_check();
            fin(rep, cfg, "exploration",
                "W-farm (emergency-exit-heavy mix; base penalty 0/2/10/50/100% switched by the owner and across shards; amounts 1 unit..1e20; durations incl. the anchors; farm sets with shared, future and expired owners); every executed emergency withdrawal and, every 20th step, a forked series of exits of one position at 6+ times between now and unlock+1s is read off the bank-event slice: owner payout + penalty payouts <= recorded amount, penalty <= 90%, penalty within 2 + amount*1e-15 of amount x min(0.9, base x remaining/duration x exact multiplier), non-increasing in time after closing, zero once unlocked, recipients = owners of started unexpired farms on that LP token in equal shares else all to the fee collector; distinct = (magnitude, duration bucket, open, remaining-time quarter, #active owners, base)",
                &[ASSUME_CHAIN, ASSUME_BOUNDS], t0, json!({"shards": shards, "ops_per_shard": n}))
        }
        "C15" => {
            let mut rep = c15::run_matrix(cfg);
            rep.floor("matrix", 2_000);
            rep.floor("accepted_changes_only_named_state", 50);
            fin(rep, cfg, "exploration",
                "W-admin: the complete matrix, every cell executed on a fork of a prepared state; prepared states = {position open, closed, closed and unlocked} x {farm running, not started, ended, expired} x {distinct roles, farm owner = position owner, contract owner = farm owner, contract owner = position owner} x {pool manager contract is the farm manager's delegate, an ordinary account re-configured as delegate with its own LP token} x 3 fee/penalty configurations (288; quick runs the first plus a seed-dependent covering sample of ~27, thorough all); cells = 4 contracts x {pool manager: 3 config fields, all at once, none, 3 feature switches; farm manager: 10 config fields, several at once, none, farm expand/close, position create-for-another (auto and explicit id)/expand/close/partial close/withdraw (emergency, None, Some(false)); epoch manager: config, none; all four: transfer (to another, to self with expiry)/accept/renounce ownership} x sender roles {owner, pending owner, superseded pending owner, former owner, farm owner, position owner, pool-manager account, configured delegate, farm-manager, epoch-manager and fee-collector accounts, stranger, contract account} x ownership states {initial, transfer pending, pending with unexpired expiry, pending and expired, re-proposed to another, transferred, transferred back, renounced, renounced while pending} x {no funds, one coin}; oracle = authorised(sender, rule from the statement) and no funds and the message is valid in the prepared state; rejected cells must leave the chain state identical, accepted cells may only change the storage the message names; distinct = (cell, prepared state)",
                &[ASSUME_CHAIN, "the matrix is finite; thorough enumerates it completely over all 288 prepared states, quick over a sample of them"], t0, json!({"exhaustive": true}))
        }
        "C20" => {
            let shards = cfg.pick(4, 32);
            let n = cfg.pick(1_800, 8_000);
            let first = cfg.pick(25, 120);
            let mut rep = crate::run_shards(cfg, shards, |s| {
                if s % 2 == 0 {
                    pool_shard(cfg, s, n, vec![Box::new(c20::C20::new(first, 15))], &|_, _| {})
                } else {
                    let mut m = c20::C20::new(first, 15);
                    m.farm_side = true;
                    farm_shard(cfg, s, n, vec![Box::new(m)], &|g, _| {
                        g.weights = [16, 12, 4, 6, 14, 6, 9, 6, 4, 12, 3, 2, 4, 3];
                    })
                }
            });
            rep.floor("reject_noop", 1_500);
            rep.floor("kth_failure", 2_000);
            rep.floor("tolerated_refund_failure", 20);
            fin(rep, cfg, "fault_enumeration",
                "W-pool and W-farm in alternating shards: after every rejected or aborted message the complete chain storage (all four contracts, all balances, token-factory registry) must be bit-identical to the pre-state; for the first N and then every 15th accepted message of every kind (create pool, deposits of every shape, swaps, routes, withdrawals, config; farm create/expand/close, position create/expand/close/withdraw/emergency, claims, locked deposits) the chain calls it makes (contract entries, replies, bank send/burn/mint, token-factory create/mint/burn) are counted and the message is re-executed from the same snapshot once per call with a failure injected at that call: it must be rejected with an identical state, except a blocked refund of a farm being closed (manually or automatically), where the close must still happen and everything else must equal the unblocked run; distinct = (message kind, failed call kind, call index)",
                &[ASSUME_CHAIN, ASSUME_BOUNDS, "one injected failure per execution"], t0, json!({"shards": shards, "ops_per_shard": n}))
        }
        other => {
            eprintln!("unknown property {other}");
            2
        }
    }
}
