//! C04 — every swap conserves tokens and routes each fee to its destination.

use std::collections::BTreeMap;

use cosmwasm_std::Addr;
use mantra_dex_std::pool_manager as pm;
use serde_json::json;

use crate::ops::{witness, Monitor, Obs, Op, Step};
use crate::poolev::{fees_of, gross_candidates, jres, parse_events, timeline, PoolEv, SwapEv, Transition};
use crate::report::{hash_of, Reporter};
use crate::world::{BankEv, BankKind, World};

#[derive(Default)]
pub struct C04 {
    /// the fee collector as the messages seen so far define it: the one at the start, replaced
    /// only by an accepted UpdateConfig that names another (not read back from the configuration,
    /// which a defect could have re-pointed silently)
    model_fc: Option<String>,
}

type Leg = (String, String, String, String, u128); // kind, from, to, denom, amount

fn jlegs(v: &[Leg]) -> serde_json::Value {
    serde_json::Value::Array(
        v.iter()
            .map(|(k, f, t, d, a)| serde_json::Value::String(format!("{k} {f} -> {t}: {a}{d}")))
            .collect(),
    )
}

fn legs_of(log: &[BankEv]) -> Vec<Leg> {
    let mut v = vec![];
    for e in log {
        for c in &e.coins {
            let k = match e.kind {
                BankKind::Send => "send",
                BankKind::Burn => "burn",
                BankKind::Mint => "mint",
            };
            v.push((k.to_string(), e.from.clone(), e.to.clone(), c.denom.clone(), c.amount.u128()));
        }
    }
    net(v)
}

/// transfers netted per (kind, from, to, denom): the statement speaks of what each party ends up
/// with, not of how many messages carry it (two fees of one denom may travel in one transfer)
fn net(v: Vec<Leg>) -> Vec<Leg> {
    let mut m: BTreeMap<(String, String, String, String), u128> = BTreeMap::new();
    for (k, f, t, d, a) in v {
        *m.entry((k, f, t, d)).or_default() += a;
    }
    m.into_iter().filter(|(_, a)| *a > 0).map(|((k, f, t, d), a)| (k, f, t, d, a)).collect()
}

/// balances after applying the legs to `pre`
fn apply_legs(pre: &Obs, legs: &[Leg]) -> BTreeMap<String, BTreeMap<String, i128>> {
    let mut d: BTreeMap<String, BTreeMap<String, i128>> = BTreeMap::new();
    for (k, from, to, denom, amt) in legs {
        let a = *amt as i128;
        match k.as_str() {
            "send" => {
                *d.entry(from.clone()).or_default().entry(denom.clone()).or_default() -= a;
                *d.entry(to.clone()).or_default().entry(denom.clone()).or_default() += a;
            }
            "burn" => {
                *d.entry(from.clone()).or_default().entry(denom.clone()).or_default() -= a;
            }
            _ => {
                *d.entry(to.clone()).or_default().entry(denom.clone()).or_default() += a;
            }
        }
    }
    let _ = pre;
    d
}

/// every account's balance change between pre and post must be exactly `delta`
pub fn unexplained_changes(pre: &Obs, post: &Obs, delta: &BTreeMap<String, BTreeMap<String, i128>>) -> Vec<String> {
    let mut bad = vec![];
    let mut accts: Vec<&String> = pre.bal.keys().chain(post.bal.keys()).collect();
    accts.sort();
    accts.dedup();
    let empty = BTreeMap::new();
    for a in accts {
        let b0 = pre.bal.get(a).unwrap_or(&empty);
        let b1 = post.bal.get(a).unwrap_or(&empty);
        let mut denoms: Vec<&String> = b0.keys().chain(b1.keys()).collect();
        denoms.sort();
        denoms.dedup();
        for d in denoms {
            let ch = *b1.get(d).unwrap_or(&0) as i128 - *b0.get(d).unwrap_or(&0) as i128;
            let exp = delta.get(a).and_then(|m| m.get(d)).copied().unwrap_or(0);
            if ch != exp {
                bad.push(format!("{a} {d}: changed by {ch}, explained {exp}"));
            }
        }
    }
    // accounts the harness does not know must not appear in the expected deltas
    for a in delta.keys() {
        if !a.is_empty() && !pre.bal.contains_key(a) && !post.bal.contains_key(a) {
            bad.push(format!("transfer to/from unknown account {a}"));
        }
    }
    bad
}

fn val(v: &[(String, u128)], d: &str) -> Option<u128> {
    v.iter().find(|(k, _)| k == d).map(|(_, a)| *a)
}

/// reserve identity + fee formula for one executed hop; returns the gross output it implies
pub fn check_hop(t: &Transition, s: &SwapEv, fees: &mantra_dex_std::fee::PoolFee) -> Result<u128, String> {
    let bo = val(&t.before, &s.offer_denom).ok_or("offer denom not in pool")?;
    let ba = val(&t.before, &s.ask_denom).ok_or("ask denom not in pool")?;
    let ao = val(&t.after, &s.offer_denom).ok_or("offer denom not in pool")?;
    let aa = val(&t.after, &s.ask_denom).ok_or("ask denom not in pool")?;
    if ao != bo.checked_add(s.offer_amount).ok_or("overflow")? {
        return Err(format!(
            "offer reserve {bo} -> {ao}, expected + full offer {}",
            s.offer_amount
        ));
    }
    let leaving = s.return_amount + s.protocol_fee + s.burn_fee;
    if ba.checked_sub(leaving) != Some(aa) {
        return Err(format!(
            "ask reserve {ba} -> {aa}, expected - (return {} + protocol {} + burn {}) = {:?}",
            s.return_amount,
            s.protocol_fee,
            s.burn_fee,
            ba.checked_sub(leaving)
        ));
    }
    for ((d0, a0), (_, a1)) in t.before.iter().zip(t.after.iter()) {
        if d0 != &s.offer_denom && d0 != &s.ask_denom && a0 != a1 {
            return Err(format!("uninvolved reserve {d0} changed {a0} -> {a1}"));
        }
    }
    // fees: each one floor(G * share) for one common gross G, receiver gets G - all fees
    if let Some(extra) = s.extra_fees {
        let g = s.return_amount + s.swap_fee + s.protocol_fee + s.burn_fee + extra;
        let f = fees_of(g, fees);
        if f.swap != s.swap_fee || f.protocol != s.protocol_fee || f.burn != s.burn_fee || f.extra != extra {
            return Err(format!(
                "fees (swap {}, protocol {}, burn {}, extra {}) are not floor(gross {} x share) = {:?}",
                s.swap_fee, s.protocol_fee, s.burn_fee, extra, g, f
            ));
        }
        Ok(g)
    } else {
        let cands = gross_candidates(s.return_amount, fees);
        for g in &cands {
            let f = fees_of(*g, fees);
            if f.swap == s.swap_fee && f.protocol == s.protocol_fee && f.burn == s.burn_fee {
                return Ok(*g);
            }
        }
        Err(format!(
            "no gross output G with G - floor-fees(G) = return {} reproduces the reported fees (swap {}, protocol {}, burn {}); candidates {:?}",
            s.return_amount, s.swap_fee, s.protocol_fee, s.burn_fee, cands
        ))
    }
}

pub fn resolve_receiver(w: &World, receiver: &Option<String>, sender: &Addr) -> String {
    match receiver {
        Some(r) => {
            use cosmwasm_std::Api;
            match w.app.api().addr_validate(r) {
                Ok(a) => a.to_string(),
                Err(_) => sender.to_string(),
            }
        }
        None => sender.to_string(),
    }
}

impl Monitor for C04 {
    fn step(&mut self, w: &mut World, s: &Step, rep: &mut Reporter) {
        if self.model_fc.is_none() {
            self.model_fc = Some(s.pre.pm_fc.clone());
        }
        self.judge(w, s, rep);
        if let (Op::Pm { msg: pm::ExecuteMsg::UpdateConfig { fee_collector_addr: Some(a), .. }, .. }, true) = (s.op, s.out.is_ok()) {
            self.model_fc = Some(a.clone());
        }
        if self.model_fc.as_deref() != Some(s.post.pm_fc.as_str()) {
            rep.failed("fee_destination", None, format!("the pool manager's fee collector is now {} although no accepted message named it (expected {})", w.name_of(&s.post.pm_fc), w.name_of(self.model_fc.as_deref().unwrap_or(""))), witness(json!({"after": s.op.kind(), "configured": s.post.pm_fc, "expected": self.model_fc})));
            self.model_fc = Some(s.post.pm_fc.clone());
        } else if matches!(s.op, Op::Pm { msg: pm::ExecuteMsg::UpdateConfig { .. }, .. }) {
            rep.held("fee_destination", hash_of(&(s.out.is_ok(), s.post.pm_fc == w.fc.as_str())), || json!({"after": "pm.update_config", "accepted": s.out.is_ok(), "fee_collector": w.name_of(&s.post.pm_fc)}));
        }
        if s.idx % 120 == 77 {
            self.lp_pool_probe(w, s, rep);
        }
    }
}

impl C04 {
    fn forked(&mut self, w: &mut World, op: &Op, idx: usize, rep: &mut Reporter) -> bool {
        let pre = crate::ops::observe(w);
        let fpre = crate::wfarm::fobserve(w);
        let pre_snap = w.snapshot();
        let out = w.apply(op);
        let post = crate::ops::observe(w);
        let fpost = crate::wfarm::fobserve(w);
        let st = Step { idx, op, pre_snap: &pre_snap, pre: &pre, out: &out, post: &post, fpre: &fpre, fpost: &fpost };
        self.judge(w, &st, rep);
        out.is_ok()
    }

    /// forked: a pool one of whose assets is itself a token-factory denom (the LP token of another
    /// pool), with every kind of fee; swaps in both directions and a route through it are judged
    /// by the ordinary clauses (the burn fee of a factory denom must leave the supply like any other)
    fn lp_pool_probe(&mut self, w: &mut World, s: &Step, rep: &mut Reporter) {
        use crate::wpool::{create_pool_op, pool_fee, provide_op, swap_op};
        use cosmwasm_std::coin;
        let holder = s.post.pools.values().filter(|p| p.funded()).find_map(|p| {
            w.users.iter().find(|u| s.post.bal(u, &p.info.lp_denom) >= 1_000_000 && s.post.bal(u, "uom") >= 10u128.pow(12)).map(|u| (u.clone(), p.info.lp_denom.clone(), s.post.bal(u, &p.info.lp_denom)))
        });
        let (u, lp, bal) = match holder {
            Some(h) => h,
            None => return,
        };
        let snap = w.snapshot();
        let name = format!("lpp{}", s.idx);
        let pid = format!("o.{name}");
        let mut ok = w.apply(&create_pool_op(w, &u, &[lp.as_str(), "uom"], mantra_dex_std::pool_manager::PoolType::ConstantProduct, pool_fee(10, 30, 25, &[10]), Some(&name))).is_ok();
        ok &= w.apply(&provide_op(&u, &pid, vec![coin(bal / 4, lp.clone()), coin(10u128.pow(9), "uom")], None, None, None, None, None)).is_ok();
        if !ok {
            rep.count("bank_slice", "lp_pool_probe_not_set_up");
            w.restore(&snap);
            return;
        }
        let half = Some(cosmwasm_std::Decimal::percent(50));
        let a = self.forked(w, &swap_op(&u, &pid, coin(10u128.pow(7), "uom"), &lp, None, half, None), s.idx, rep);
        let bal_now = w.balance(&u, &lp);
        let b = self.forked(w, &swap_op(&u, &pid, coin((bal / 400).max(1).min(bal_now), lp.clone()), "uom", None, half, Some(w.users[0].to_string())), s.idx, rep);
        rep.count("bank_slice", &format!("lp_pool_probe: swap into a token-factory denom executed={a}, out of it executed={b}"));
        w.restore(&snap);
    }

    fn judge(&mut self, w: &mut World, s: &Step, rep: &mut Reporter) {
        if !s.out.is_ok() {
            return;
        }
        if s.pre.pm_fc != w.fc.as_str() && matches!(s.op, Op::Pm { msg: pm::ExecuteMsg::Swap { .. } | pm::ExecuteMsg::ExecuteSwapOperations { .. }, .. }) {
            rep.count("bank_slice", "trades_while_the_fee_collector_is_a_plain_account");
        }
        let (sender, msg, funds) = match s.op {
            Op::Pm { sender, msg, funds } => (sender, msg, funds),
            _ => return,
        };
        let evs = match parse_events(s.out, &w.pm) {
            Ok(e) => e,
            Err(e) => {
                rep.failed("events", None, format!("unparsable pool manager event: {e}"), witness(json!({})));
                return;
            }
        };
        let tl = match timeline(s.pre, s.post, &evs) {
            Ok(t) => t,
            Err(e) => {
                rep.failed("reserve_identity", None, e.clone(), witness(json!({"inconsistency": e})));
                return;
            }
        };
        // every executed hop, whatever message it was part of
        let mut hop_ok = true;
        let mut hops: Vec<&SwapEv> = vec![];
        for t in &tl {
            if let PoolEv::Swap(sw) = &t.ev {
                hops.push(sw);
                let p = match s.pre.pools.get(&t.pool) {
                    Some(p) => p,
                    None => continue,
                };
                let nfees = 3 + p.info.pool_fees.extra_fees.len();
                let abs = hash_of(&(
                    &t.pool,
                    sw.routed,
                    sw.swap_fee == 0,
                    sw.protocol_fee == 0,
                    sw.burn_fee == 0,
                    (sw.offer_amount as f64).log10() as i32,
                    nfees,
                ));
                match check_hop(t, sw, &p.info.pool_fees) {
                    Ok(g) => rep.held("hop_identity_and_fees", abs, || {
                        json!({"pool": t.pool, "routed": sw.routed, "offer": format!("{}{}", sw.offer_amount, sw.offer_denom),
                               "gross": g.to_string(), "return": sw.return_amount.to_string(), "swap_fee": sw.swap_fee.to_string(),
                               "protocol_fee": sw.protocol_fee.to_string(), "burn_fee": sw.burn_fee.to_string(),
                               "extra": sw.extra_fees.map(|x| x.to_string())})
                    }),
                    Err(e) => {
                        hop_ok = false;
                        rep.failed(
                            "hop_identity_and_fees",
                            None,
                            format!("pool {} hop {}{} -> {}: {e}", t.pool, sw.offer_amount, sw.offer_denom, sw.ask_denom),
                            witness(json!({"hop": format!("{sw:?}"), "before": jres(&t.before), "after": jres(&t.after)})),
                        );
                    }
                }
            }
        }
        let _ = hop_ok;

        // bank slice of top-level swaps and routes
        let mut expected: Vec<Leg> = vec![];
        let kind;
        match msg {
            pm::ExecuteMsg::Swap { receiver, .. } => {
                kind = "swap";
                if hops.len() != 1 {
                    rep.failed("bank_slice", None, format!("direct swap emitted {} swap events", hops.len()), witness(json!({})));
                    return;
                }
                let h = hops[0];
                let recv = resolve_receiver(w, receiver, sender);
                // the only thing a swap takes from its sender is the offer, and all of it goes
                // into the offer reserve: any other coin riding along must have been refused
                expected.push(("send".into(), sender.to_string(), w.pm.to_string(), h.offer_denom.clone(), h.offer_amount));
                if h.return_amount > 0 {
                    expected.push(("send".into(), w.pm.to_string(), recv, h.ask_denom.clone(), h.return_amount));
                }
                if h.burn_fee > 0 {
                    expected.push(("burn".into(), w.pm.to_string(), String::new(), h.ask_denom.clone(), h.burn_fee));
                }
                if h.protocol_fee > 0 {
                    expected.push(("send".into(), w.pm.to_string(), self.model_fc.clone().unwrap_or_else(|| s.pre.pm_fc.clone()), h.ask_denom.clone(), h.protocol_fee));
                }
            }
            pm::ExecuteMsg::ExecuteSwapOperations { receiver, operations, .. } => {
                kind = "route";
                let recv = resolve_receiver(w, receiver, sender);
                if let Some(h0) = hops.first() {
                    expected.push(("send".into(), sender.to_string(), w.pm.to_string(), h0.offer_denom.clone(), h0.offer_amount));
                }
                if hops.len() != operations.len() {
                    rep.failed("route_chaining", None, format!("{} operations but {} executed hops", operations.len(), hops.len()), witness(json!({})));
                    return;
                }
                // each hop consumes exactly the previous hop's output
                let mut prev: Option<(String, u128)> = hops.first().and_then(|h0| funds.iter().find(|c| c.denom == h0.offer_denom)).map(|c| (c.denom.clone(), c.amount.u128()));
                let mut chain_ok = true;
                for (h, o) in hops.iter().zip(operations.iter()) {
                    let pm::SwapOperation::MantraSwap { token_in_denom, token_out_denom, pool_identifier } = o;
                    if &h.pool != pool_identifier || &h.offer_denom != token_in_denom || &h.ask_denom != token_out_denom {
                        chain_ok = false;
                    }
                    if prev != Some((h.offer_denom.clone(), h.offer_amount)) {
                        chain_ok = false;
                    }
                    prev = Some((h.ask_denom.clone(), h.return_amount));
                }
                if !chain_ok {
                    rep.failed(
                        "route_chaining",
                        None,
                        "a hop did not consume exactly the previous hop's output on the requested pool".into(),
                        witness(json!({"hops": hops.iter().map(|h| format!("{h:?}")).collect::<Vec<_>>()})),
                    );
                } else {
                    rep.held("route_chaining", hash_of(&(hops.len(), hops.iter().map(|h| h.pool.clone()).collect::<Vec<_>>())), || {
                        json!({"hops": hops.iter().map(|h| format!("{}:{}{}->{}{}", h.pool, h.offer_amount, h.offer_denom, h.return_amount, h.ask_denom)).collect::<Vec<_>>()})
                    });
                }
                let last = hops.last().unwrap();
                if last.return_amount > 0 {
                    expected.push(("send".into(), w.pm.to_string(), recv, last.ask_denom.clone(), last.return_amount));
                }
                for h in &hops {
                    if h.burn_fee > 0 {
                        expected.push(("burn".into(), w.pm.to_string(), String::new(), h.ask_denom.clone(), h.burn_fee));
                    }
                    if h.protocol_fee > 0 {
                        expected.push(("send".into(), w.pm.to_string(), self.model_fc.clone().unwrap_or_else(|| s.pre.pm_fc.clone()), h.ask_denom.clone(), h.protocol_fee));
                    }
                }
            }
            _ => return,
        }
        let expected = net(expected);
        let actual = legs_of(s.out.log());
        let recv_is = match msg {
            pm::ExecuteMsg::Swap { receiver, .. } | pm::ExecuteMsg::ExecuteSwapOperations { receiver, .. } => {
                let r = resolve_receiver(w, receiver, sender);
                if r == sender.as_str() { "sender".to_string() } else { w.name_of(&r) }
            }
            _ => String::new(),
        };
        let abs = hash_of(&(kind, hops.len(), &recv_is, expected.len()));
        if actual != expected {
            rep.failed(
                "bank_slice",
                None,
                format!("{kind}: token movements differ from what the swap must cause"),
                witness(json!({"expected_legs": jlegs(&expected), "actual_legs": jlegs(&actual)})),
            );
        } else {
            rep.held("bank_slice", abs, || json!({"kind": kind, "receiver": recv_is, "legs": jlegs(&actual)}));
        }
        // and the observed balances of every account move exactly by those legs
        let delta = apply_legs(s.pre, &actual);
        let bad = unexplained_changes(s.pre, s.post, &delta);
        if bad.is_empty() {
            rep.held("nobody_else", abs, || json!({"kind": kind, "accounts_checked": s.post.bal.len()}));
        } else {
            rep.failed("nobody_else", None, format!("{kind}: {}", bad.join("; ")), witness(json!({"unexplained": bad})));
        }
    }
}
