//! C17 — per-pool feature switches stop exactly the switched operation on every path.

use std::collections::BTreeMap;

use cosmwasm_std::{coin, Addr, Coin, Decimal};
use mantra_dex_std::pool_manager as pm;
use mantra_dex_std::pool_manager::SwapOperation;
use rand::rngs::StdRng;
use rand::seq::SliceRandom;
use rand::{Rng, SeedableRng};
use serde_json::json;

use crate::farmobs::all_positions;
use crate::ops::{observe, witness, Monitor, Obs, Op, PoolView, Step};
use crate::report::{hash_of, Reporter};
use crate::world::{Outcome, World};
use crate::wpool::{provide_op, swap_op, toggle_op, withdraw_op};

pub struct C17 {
    rng: StdRng,
    pub every: usize,
}

impl C17 {
    pub fn new(seed: u64) -> C17 {
        C17 {
            rng: StdRng::seed_from_u64(seed ^ 0xC17),
            every: 40,
        }
    }
}

#[derive(Clone)]
struct Action {
    name: String,
    op: Op,
    /// which of the target pool's switches the action needs: (swaps, deposits, withdrawals)
    needs: (bool, bool, bool),
    on_target: bool,
}

#[derive(PartialEq, Debug, Clone)]
struct Effects {
    pools: BTreeMap<String, (Vec<(String, u128)>, u128)>,
    bal: BTreeMap<String, BTreeMap<String, u128>>,
    positions: Vec<String>,
}

fn effects(w: &World) -> Effects {
    let o: Obs = observe(w);
    Effects {
        pools: o
            .pools
            .iter()
            .map(|(k, p)| (k.clone(), (p.info.asset_denoms.iter().map(|d| (d.clone(), p.reserve(d))).collect(), p.supply)))
            .collect(),
        bal: o.bal,
        positions: all_positions(w).values().map(|p| format!("{p}")).collect(),
    }
}

fn route(ops: Vec<(&PoolView, String, String)>) -> Vec<SwapOperation> {
    ops.into_iter()
        .map(|(p, i, o)| SwapOperation::MantraSwap {
            token_in_denom: i,
            token_out_denom: o,
            pool_identifier: p.info.pool_identifier.clone(),
        })
        .collect()
}

fn proportional(p: &PoolView, ppm: u128) -> Vec<Coin> {
    p.info
        .assets
        .iter()
        .map(|c| coin((c.amount.u128() / 1_000_000 * ppm).max(10), c.denom.clone()))
        .collect()
}

impl C17 {
    fn probe(&mut self, w: &mut World, obs: &Obs, rep: &mut Reporter) {
        let funded: Vec<&PoolView> = obs.pools.values().filter(|p| p.funded() && p.info.assets.iter().all(|c| c.amount.u128() > 1_000_000)).collect();
        if funded.len() < 2 {
            return;
        }
        let t = *funded.choose(&mut self.rng).unwrap();
        let others: Vec<&&PoolView> = funded.iter().filter(|p| p.info.pool_identifier != t.info.pool_identifier).collect();
        let o = **others.choose(&mut self.rng).unwrap();
        let entry = w.snapshot();
        let user: Addr = w.users[self.rng.gen_range(0..w.users.len())].clone();
        let owner = w.owner.clone();
        // make sure everything is enabled to start with, and the user owns LP of both pools
        for p in [t, o] {
            w.apply(&toggle_op(&owner, &p.info.pool_identifier, Some(true), Some(true), Some(true)));
            w.apply(&provide_op(&user, &p.info.pool_identifier, proportional(p, 5_000), None, None, None, None, None));
        }
        let base = w.snapshot();
        let bobs = observe(w);
        let tid = t.info.pool_identifier.clone();
        let oid = o.info.pool_identifier.clone();
        let t = &bobs.pools[&tid];
        let o = &bobs.pools[&oid];
        let half = Some(Decimal::percent(50));
        let mut actions: Vec<Action> = vec![];
        let a0 = t.info.assets[0].clone();
        let a1 = t.info.assets[1].clone();
        let amt = |c: &Coin| (c.amount.u128() / 1000).max(1);
        actions.push(Action { name: "direct swap".into(), op: swap_op(&user, &tid, coin(amt(&a0), a0.denom.clone()), &a1.denom, None, half, None), needs: (true, false, false), on_target: true });
        // routes through the target pool at every position
        let neighbours = |denom: &str, exclude: &str| -> Vec<(&PoolView, String)> {
            bobs.pools
                .values()
                .filter(|p| p.funded() && p.info.pool_identifier != exclude && p.index_of(denom).is_some())
                .flat_map(|p| p.info.assets.iter().filter(|c| c.denom != denom).map(move |c| (p, c.denom.clone())).collect::<Vec<_>>())
                .collect()
        };
        // T first:  a0 -(T)-> a1 -(X)-> y
        if let Some((x, y)) = neighbours(&a1.denom, &tid).choose(&mut self.rng).cloned() {
            actions.push(Action {
                name: "route, switched pool first".into(),
                op: Op::Pm { sender: user.clone(), msg: pm::ExecuteMsg::ExecuteSwapOperations { operations: route(vec![(t, a0.denom.clone(), a1.denom.clone()), (x, a1.denom.clone(), y)]), minimum_receive: None, receiver: None, max_slippage: half }, funds: vec![coin(amt(&a0), a0.denom.clone())] },
                needs: (true, false, false),
                on_target: true,
            });
        }
        // T last:  z -(X)-> a0 -(T)-> a1
        if let Some((x, z)) = neighbours(&a0.denom, &tid).choose(&mut self.rng).cloned() {
            let zin = (x.reserve(&z) / 1000).max(1);
            actions.push(Action {
                name: "route, switched pool last".into(),
                op: Op::Pm { sender: user.clone(), msg: pm::ExecuteMsg::ExecuteSwapOperations { operations: route(vec![(x, z.clone(), a0.denom.clone()), (t, a0.denom.clone(), a1.denom.clone())]), minimum_receive: None, receiver: None, max_slippage: half }, funds: vec![coin(zin, z.clone())] },
                needs: (true, false, false),
                on_target: true,
            });
            // T in the middle: z -(X)-> a0 -(T)-> a1 -(Y)-> q
            if let Some((yp, q)) = neighbours(&a1.denom, &tid).choose(&mut self.rng).cloned() {
                actions.push(Action {
                    name: "route, switched pool in the middle".into(),
                    op: Op::Pm { sender: user.clone(), msg: pm::ExecuteMsg::ExecuteSwapOperations { operations: route(vec![(x, z.clone(), a0.denom.clone()), (t, a0.denom.clone(), a1.denom.clone()), (yp, a1.denom.clone(), q)]), minimum_receive: None, receiver: None, max_slippage: half }, funds: vec![coin(zin, z)] },
                    needs: (true, false, false),
                    on_target: true,
                });
            }
        }
        if t.info.assets.len() == 2 {
            actions.push(Action { name: "single-asset deposit".into(), op: provide_op(&user, &tid, vec![coin(amt(&a0) | 1, a0.denom.clone())], None, half, None, None, None), needs: (true, true, false), on_target: true });
            actions.push(Action { name: "single-asset locked deposit".into(), op: provide_op(&user, &tid, vec![coin(amt(&a1), a1.denom.clone())], None, half, None, Some(86_400), None), needs: (true, true, false), on_target: true });
        }
        actions.push(Action { name: "deposit".into(), op: provide_op(&user, &tid, proportional(t, 2_000), None, None, None, None, None), needs: (false, true, false), on_target: true });
        actions.push(Action { name: "locked deposit".into(), op: provide_op(&user, &tid, proportional(t, 2_000), None, None, None, Some(2_629_746), None), needs: (false, true, false), on_target: true });
        let lp_t = bobs.bal(&user, &t.info.lp_denom);
        actions.push(Action { name: "withdrawal".into(), op: withdraw_op(&user, &tid, coin((lp_t / 3).max(1), t.info.lp_denom.clone())), needs: (false, false, true), on_target: true });
        // the other pool
        let b0 = o.info.assets[0].clone();
        let b1 = o.info.assets[1].clone();
        actions.push(Action { name: "other pool: swap".into(), op: swap_op(&user, &oid, coin(amt(&b0), b0.denom.clone()), &b1.denom, None, half, None), needs: (false, false, false), on_target: false });
        actions.push(Action { name: "other pool: deposit".into(), op: provide_op(&user, &oid, proportional(o, 2_000), None, None, None, None, None), needs: (false, false, false), on_target: false });
        let lp_o = bobs.bal(&user, &o.info.lp_denom);
        actions.push(Action { name: "other pool: withdrawal".into(), op: withdraw_op(&user, &oid, coin((lp_o / 3).max(1), o.info.lp_denom.clone())), needs: (false, false, false), on_target: false });

        // reference outcomes with everything enabled
        let mut reference: Vec<(bool, Effects)> = vec![];
        for a in &actions {
            w.restore(&base);
            let out = w.apply(&a.op);
            reference.push((out.is_ok(), effects(w)));
        }
        for combo in 0..8u8 {
            let (sw, dp, wd) = (combo & 1 != 0, combo & 2 != 0, combo & 4 != 0);
            w.restore(&base);
            // reach the combination either in one message or field by field in a random order
            let mut okt = true;
            let how = self.rng.gen_range(0..3);
            if how == 0 {
                okt &= w.apply(&toggle_op(&owner, &tid, Some(sw), Some(dp), Some(wd))).is_ok();
            } else if how == 1 {
                // the same message also restates other configuration values (unchanged)
                let cfg: Result<pm::Config, String> = w.query(&w.pm, &pm::QueryMsg::Config {});
                let mut op = toggle_op(&owner, &tid, Some(sw), Some(dp), Some(wd));
                if let (Ok(cfg), Op::Pm { msg: pm::ExecuteMsg::UpdateConfig { fee_collector_addr, farm_manager_addr, pool_creation_fee, .. }, .. }) = (cfg, &mut op) {
                    let bits = self.rng.gen_range(1..8u8);
                    if bits & 1 != 0 {
                        *pool_creation_fee = Some(cfg.pool_creation_fee.clone());
                    }
                    if bits & 2 != 0 {
                        *fee_collector_addr = Some(cfg.fee_collector_addr.to_string());
                    }
                    if bits & 4 != 0 {
                        *farm_manager_addr = Some(cfg.farm_manager_addr.to_string());
                    }
                    rep.count("switched_pool", "toggles_sent_together_with_other_config_fields");
                }
                okt &= w.apply(&op).is_ok();
            } else {
                let mut order = vec![0, 1, 2];
                order.shuffle(&mut self.rng);
                for k in order {
                    let op = match k {
                        0 => toggle_op(&owner, &tid, Some(sw), None, None),
                        1 => toggle_op(&owner, &tid, None, Some(dp), None),
                        _ => toggle_op(&owner, &tid, None, None, Some(wd)),
                    };
                    okt &= w.apply(&op).is_ok();
                }
            }
            if !okt {
                rep.failed("toggle", None, "owner could not set the switches".into(), witness(json!({"pool": tid})));
                continue;
            }
            let toggled = w.snapshot();
            for (a, (ref_ok, ref_eff)) in actions.iter().zip(reference.iter()) {
                w.restore(&toggled);
                let out: Outcome = w.apply(&a.op);
                let allowed = (!a.needs.0 || sw) && (!a.needs.1 || dp) && (!a.needs.2 || wd);
                let expect_ok = *ref_ok && allowed;
                let clause = if a.on_target { "switched_pool" } else { "other_pool" };
                let abs = hash_of(&(&a.name, combo, t.is_cp(), out.is_ok()));
                let ctx = json!({"pool": tid, "type": if t.is_cp() {"constant_product"} else {"stableswap"}, "switches": {"swaps": sw, "deposits": dp, "withdrawals": wd},
                                 "action": a.name, "reference_ok": ref_ok, "result": out.short()});
                if out.is_ok() != expect_ok {
                    rep.failed(clause, None, format!("pool {tid} with swaps={sw} deposits={dp} withdrawals={wd}: '{}' accepted={} (reference accepted={ref_ok})", a.name, out.is_ok()), witness(ctx));
                    continue;
                }
                if out.is_ok() {
                    let eff = effects(w);
                    if &eff != ref_eff {
                        rep.failed(clause, None, format!("pool {tid} with swaps={sw} deposits={dp} withdrawals={wd}: '{}' behaves differently from the untoggled reference", a.name), witness(ctx));
                        continue;
                    }
                } else {
                    if *w.state() != toggled.storage {
                        rep.failed(clause, None, format!("refused '{}' changed the state", a.name), witness(ctx));
                        continue;
                    }
                    if *ref_ok && !allowed && !out.err_msg().unwrap_or("").contains("Operation disabled") {
                        rep.note(format!("'{}' refused while switched off, reason given: {}", a.name, out.short()));
                    }
                }
                rep.held(clause, abs, || ctx.clone());
            }
            // re-enabling restores normal behaviour
            w.restore(&toggled);
            w.apply(&toggle_op(&owner, &tid, Some(true), Some(true), Some(true)));
            let re = w.snapshot();
            let pick = self.rng.gen_range(0..actions.len());
            for (k, (a, (ref_ok, ref_eff))) in actions.iter().zip(reference.iter()).enumerate() {
                if k != pick && combo != 0 {
                    continue;
                }
                w.restore(&re);
                let out = w.apply(&a.op);
                if out.is_ok() == *ref_ok && (!out.is_ok() || &effects(w) == ref_eff) {
                    rep.held("re_enabled", hash_of(&(&a.name, combo)), || json!({"pool": tid, "after_switches": [sw, dp, wd], "action": a.name, "same_as_reference": true}));
                } else {
                    rep.failed("re_enabled", None, format!("pool {tid}: after re-enabling, '{}' differs from the reference", a.name), witness(json!({"pool": tid, "combo": combo})));
                }
            }
        }
        w.restore(&entry);
    }
}

impl Monitor for C17 {
    fn step(&mut self, w: &mut World, s: &Step, rep: &mut Reporter) {
        // new pools start with everything enabled
        for (id, p) in &s.post.pools {
            if !s.pre.pools.contains_key(id) {
                let st = &p.info.status;
                if st.swaps_enabled && st.deposits_enabled && st.withdrawals_enabled {
                    rep.held("new_pools_enabled", hash_of(&(id.starts_with("o."), p.is_cp())), || json!({"pool": id, "status": "all enabled"}));
                } else {
                    rep.failed("new_pools_enabled", None, format!("new pool {id} starts with a switch off"), witness(json!({"pool": id})));
                }
            }
        }
        // ordinary traffic: an operation on a pool whose switch is off must be refused
        if let Op::Pm { msg, funds, .. } = s.op {
            let hit = match msg {
                pm::ExecuteMsg::Swap { pool_identifier, .. } => s.pre.pools.get(pool_identifier).map(|p| !p.info.status.swaps_enabled),
                pm::ExecuteMsg::WithdrawLiquidity { pool_identifier } => s.pre.pools.get(pool_identifier).map(|p| !p.info.status.withdrawals_enabled),
                pm::ExecuteMsg::ProvideLiquidity { pool_identifier, .. } => s.pre.pools.get(pool_identifier).map(|p| !p.info.status.deposits_enabled || (funds.len() == 1 && !p.info.status.swaps_enabled)),
                pm::ExecuteMsg::ExecuteSwapOperations { operations, .. } => Some(operations.iter().any(|o| s.pre.pools.get(&o.get_pool_identifer()).map(|p| !p.info.status.swaps_enabled).unwrap_or(false))),
                _ => None,
            };
            if hit == Some(true) {
                if s.out.is_ok() {
                    rep.failed("traffic", None, format!("{} executed on a pool whose switch is off", s.op.kind()), witness(json!({})));
                } else {
                    rep.held("traffic", hash_of(&s.op.kind()), || json!({"op": s.op.kind(), "result": s.out.short()}));
                }
            }
        }
        if s.idx % self.every == self.every - 1 {
            self.probe(w, s.post, rep);
        }
    }
}
