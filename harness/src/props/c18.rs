//! C18 — epochs partition time: derived ids are monotone and consistent.

use cosmwasm_std::{Addr, Uint64};
use cw_multi_test::Executor;
use mantra_dex_std::epoch_manager as em;
use rand::rngs::StdRng;
use rand::{Rng, SeedableRng};
use serde_json::json;

use crate::ops::{set_ctx, witness};
use crate::report::{hash_of, Reporter};
use crate::world::{World, WorldCfg};
use crate::RunCfg;

const DAY: u64 = 86_400;
/// largest block time (seconds) whose nanosecond timestamp fits u64
const MAX_SECS: u64 = u64::MAX / 1_000_000_000;

fn current(w: &World, c: &Addr) -> Result<em::EpochResponse, String> {
    w.query(c, &em::QueryMsg::CurrentEpoch {})
}
fn epoch(w: &World, c: &Addr, id: u64) -> Result<em::EpochResponse, String> {
    w.query(c, &em::QueryMsg::Epoch { id })
}

fn instantiate(w: &mut World, genesis: u64, duration: u64) -> Result<Addr, String> {
    let owner = w.owner.clone();
    let code = w.code_ids[2];
    let app = &mut w.app;
    let r = std::panic::catch_unwind(std::panic::AssertUnwindSafe(|| {
        app.instantiate_contract(
            code,
            owner.clone(),
            &em::InstantiateMsg {
                owner: owner.to_string(),
                epoch_config: em::EpochConfig {
                    duration: Uint64::new(duration),
                    genesis_epoch: Uint64::new(genesis),
                },
            },
            &[],
            "em-probe",
            None,
        )
    }));
    match r {
        Ok(Ok(a)) => Ok(a),
        Ok(Err(e)) => Err(e.root_cause().to_string()),
        Err(_) => Err("abort".into()),
    }
}

/// every check of one instance at one block time
fn check_at(w: &mut World, c: &Addr, g: u64, dur: u64, now: u64, last_id: &mut Option<(u64, u64)>, rep: &mut Reporter) {
    // block times carry nanoseconds: half of the time use a sub-second part (the derived values
    // are defined on whole seconds and must not depend on it)
    let sub = (now.wrapping_mul(2_654_435_761) >> 7) % 2_000_000_000;
    if sub < 1_000_000_000 && now < MAX_SECS {
        w.set_time_ns(now, sub.max(1));
    } else {
        w.set_time(now);
    }
    let cur = current(w, c);
    let ctx = || json!({"genesis": g.to_string(), "duration": dur.to_string(), "now": now.to_string()});
    let rel = if now < g { "before" } else if (now - g) % dur == 0 { "boundary" } else if (now - g) % dur == dur - 1 { "boundary-1" } else { "inside" };
    let abs = hash_of(&(rel, (dur as f64).log10() as i32, (now as f64).log10() as i32, (g as f64).log10() as i32));
    if now < g {
        match cur {
            Err(_) => rep.held("before_genesis_fails", abs, || ctx()),
            Ok(e) => rep.failed("before_genesis_fails", None, format!("CurrentEpoch answered {} before genesis", e.epoch.id), witness(ctx())),
        }
        return;
    }
    let want_id = ((now as u128 - g as u128) / dur as u128) as u64;
    let want_start = g as u128 + want_id as u128 * dur as u128;
    match cur {
        Ok(e) => {
            let start_s = e.epoch.start_time.seconds() as u128;
            let nanos_ok = want_start <= MAX_SECS as u128 && e.epoch.start_time.nanos() as u128 == want_start * 1_000_000_000;
            if e.epoch.id != want_id || start_s != want_start || !nanos_ok {
                rep.failed("id_formula", None, format!("CurrentEpoch = (id {}, start {}), expected (id {want_id}, start {want_start})", e.epoch.id, e.epoch.start_time), witness(ctx()));
            } else {
                rep.held("id_formula", abs, || json!({"genesis": g.to_string(), "duration": dur.to_string(), "now": now.to_string(), "id": want_id.to_string(), "start": want_start.to_string()}));
            }
            // now in [start(cur), start(cur+1))
            let next = epoch(w, c, e.epoch.id.wrapping_add(1));
            match next {
                Ok(n) => {
                    let ns = n.epoch.start_time.seconds() as u128;
                    if start_s <= now as u128 && (now as u128) < ns && ns == want_start + dur as u128 {
                        rep.held("contains_now", abs, || json!({"start": start_s.to_string(), "now": now.to_string(), "next_start": ns.to_string()}));
                    } else {
                        rep.failed("contains_now", None, format!("now {now} not in [start {start_s}, next start {ns})"), witness(ctx()));
                    }
                }
                Err(_) => {
                    // only acceptable when the next start genuinely does not fit the timestamp
                    if want_start + dur as u128 > MAX_SECS as u128 {
                        rep.count("contains_now", "next_epoch_start_overflows_cleanly");
                    } else {
                        rep.failed("contains_now", None, format!("Epoch{{id {}}} failed although its start fits", e.epoch.id + 1), witness(ctx()));
                    }
                }
            }
            // monotone / +1 per duration along increasing times
            if let Some((t0, id0)) = *last_id {
                if now >= t0 {
                    let steps = ((now as u128 - g as u128) / dur as u128) as u64 - ((t0 as u128 - g as u128) / dur as u128) as u64;
                    if e.epoch.id < id0 || e.epoch.id - id0 != steps {
                        rep.failed("monotone", None, format!("epoch id went {id0} -> {} between t={t0} and t={now} (expected +{steps})", e.epoch.id), witness(ctx()));
                    } else {
                        rep.held("monotone", hash_of(&(steps.min(3), rel)), || json!({"t0": t0.to_string(), "id0": id0.to_string(), "t1": now.to_string(), "id1": e.epoch.id.to_string()}));
                    }
                }
            }
            *last_id = Some((now, e.epoch.id));
        }
        Err(err) => {
            if want_start > MAX_SECS as u128 {
                rep.count("id_formula", "start_overflows_cleanly");
            } else {
                rep.failed("id_formula", None, format!("CurrentEpoch failed after genesis: {err}"), witness(ctx()));
            }
        }
    }
}

pub fn shard(cfg: &RunCfg, shard: usize, instances: usize) -> Reporter {
    let mut rep = Reporter::new("C18");
    let mut rng = StdRng::seed_from_u64(cfg.seed.wrapping_mul(7919).wrapping_add(shard as u64));
    set_ctx(format!("workload=W-epoch seed={} shard={shard}", cfg.seed));
    let mut w = World::new(WorldCfg { n_users: 2, ..WorldCfg::default() });
    let base = w.snapshot();
    for _ in 0..instances {
        w.restore(&base);
        let now0 = match rng.gen_range(0..6) {
            0 => 1,
            1 => rng.gen_range(1..1_000_000),
            2 => MAX_SECS - rng.gen_range(0..10_000_000),
            _ => rng.gen_range(1_600_000_000..2_000_000_000u64),
        };
        w.set_time(now0);
        let dur = match rng.gen_range(0..8) {
            0 => DAY,
            1 => DAY + 1,
            2 => rng.gen_range(DAY..30 * DAY),
            3 => rng.gen_range(DAY..u64::MAX / 4),
            4 => u64::MAX / rng.gen_range(1..1000),
            _ => rng.gen_range(DAY..400 * DAY),
        };
        let g = match rng.gen_range(0..6) {
            0 => now0,
            1 => now0 + 1,
            2 => now0.saturating_add(rng.gen_range(0..10 * dur.min(1 << 40))),
            3 => u64::MAX - rng.gen_range(0..1000),
            _ => now0 + rng.gen_range(0..100 * DAY),
        };
        // refused configurations
        let bad_dur = rng.gen_range(0..DAY);
        match instantiate(&mut w, g, bad_dur) {
            Err(_) => rep.held("config_validation", hash_of(&("dur", bad_dur == 0, bad_dur == DAY - 1)), || json!({"instantiate_duration": bad_dur, "result": "refused"})),
            Ok(_) => rep.failed("config_validation", None, format!("epoch duration {bad_dur} < one day accepted"), witness(json!({"duration": bad_dur}))),
        }
        if now0 > 0 {
            let past = now0 - 1 - rng.gen_range(0..now0.min(1000));
            match instantiate(&mut w, past, dur) {
                Err(_) => rep.held("config_validation", hash_of(&("past", now0 - past == 1)), || json!({"now": now0.to_string(), "instantiate_genesis": past.to_string(), "result": "refused"})),
                Ok(_) => rep.failed("config_validation", None, format!("genesis {past} in the past (now {now0}) accepted"), witness(json!({"genesis": past.to_string(), "now": now0.to_string()}))),
            }
        }
        let c = match instantiate(&mut w, g, dur) {
            Ok(c) => {
                rep.held("config_validation", hash_of(&("valid", g == now0, dur == DAY)), || json!({"now": now0.to_string(), "genesis": g.to_string(), "duration": dur.to_string(), "result": "accepted"}));
                c
            }
            Err(e) => {
                rep.failed("config_validation", None, format!("valid configuration (genesis {g} >= now {now0}, duration {dur}) refused: {e}"), witness(json!({})));
                continue;
            }
        };
        // increasing block times around genesis and around sampled boundaries
        let mut times: Vec<u64> = vec![now0];
        if g > 0 {
            times.push(g - 1);
        }
        times.push(g);
        times.push(g.saturating_add(1));
        for _ in 0..6 {
            let k: u128 = match rng.gen_range(0..4) {
                0 => 1,
                1 => rng.gen_range(1..10),
                2 => rng.gen_range(1..100_000),
                _ => rng.gen_range(1..u32::MAX as u128),
            };
            let b = g as u128 + k * dur as u128;
            for d in [-1i128, 0, 1] {
                let t = b as i128 + d;
                if t >= 0 && (t as u128) <= MAX_SECS as u128 {
                    times.push(t as u64);
                }
            }
            let r = g as u128 + rng.gen_range(0..(k * dur as u128 + 1));
            if r <= MAX_SECS as u128 {
                times.push(r as u64);
            }
        }
        times.push(MAX_SECS);
        times.retain(|t| *t >= now0 && *t <= MAX_SECS);
        times.sort();
        times.dedup();
        let mut last = None;
        for t in times {
            check_at(&mut w, &c, g, dur, t, &mut last, &mut rep);
        }
        // start(id) = genesis + id x duration or a clean failure, never a wrapped value
        for _ in 0..8 {
            let id = match rng.gen_range(0..5) {
                0 => rng.gen_range(0..100),
                1 => u64::MAX - rng.gen_range(0..100),
                2 => rng.gen_range(0..u64::MAX),
                _ => (((MAX_SECS as u128).saturating_sub(g as u128)) / dur as u128) as u64 + rng.gen_range(0..3),
            };
            let want = g as u128 + id as u128 * dur as u128;
            let fits = want <= MAX_SECS as u128;
            let abs = hash_of(&(fits, (id as f64).log10() as i32));
            match epoch(&w, &c, id) {
                Ok(e) => {
                    if fits && e.epoch.id == id && e.epoch.start_time.nanos() as u128 == want * 1_000_000_000 {
                        rep.held("start_formula", abs, || json!({"genesis": g.to_string(), "duration": dur.to_string(), "id": id.to_string(), "start": want.to_string()}));
                    } else {
                        rep.failed("start_formula", None, format!("Epoch{{{id}}} start {} but genesis + id x duration = {want} (fits: {fits})", e.epoch.start_time), witness(json!({"genesis": g.to_string(), "duration": dur.to_string(), "id": id.to_string()})));
                    }
                }
                Err(_) => {
                    if fits {
                        rep.failed("start_formula", None, format!("Epoch{{{id}}} failed although start {want} fits"), witness(json!({"genesis": g.to_string(), "duration": dur.to_string(), "id": id.to_string()})));
                    } else {
                        rep.held("start_formula", abs, || json!({"genesis": g.to_string(), "duration": dur.to_string(), "id": id.to_string(), "result": "clean failure (does not fit)"}));
                    }
                }
            }
        }
        // updates: owner only, same validation
        let tnow = w.now();
        let stranger = w.users[0].clone();
        let owner = w.owner.clone();
        let newcfg = em::EpochConfig { duration: Uint64::new(DAY + rng.gen_range(0..DAY)), genesis_epoch: Uint64::new(tnow + rng.gen_range(0..DAY)) };
        let r = w.exec(&stranger, &c, &em::ExecuteMsg::UpdateConfig { epoch_config: Some(newcfg.clone()) }, &[]);
        if r.is_ok() {
            rep.failed("config_validation", None, "non-owner updated the epoch configuration".into(), witness(json!({})));
        }
        let r = w.exec(&owner, &c, &em::ExecuteMsg::UpdateConfig { epoch_config: Some(em::EpochConfig { duration: Uint64::new(rng.gen_range(0..DAY)), genesis_epoch: newcfg.genesis_epoch }) }, &[]);
        if r.is_ok() {
            rep.failed("config_validation", None, "update with duration < one day accepted".into(), witness(json!({})));
        }
        if tnow > 0 {
            let r = w.exec(&owner, &c, &em::ExecuteMsg::UpdateConfig { epoch_config: Some(em::EpochConfig { duration: newcfg.duration, genesis_epoch: Uint64::new(tnow - 1) }) }, &[]);
            if r.is_ok() {
                rep.failed("config_validation", None, "update with genesis in the past accepted".into(), witness(json!({})));
            }
        }
        // re-submitting the stored genesis once it lies in the past is a genesis in the past too
        if g < tnow {
            let before = current(&w, &c).map(|e| e.epoch.id);
            let r = w.exec(&owner, &c, &em::ExecuteMsg::UpdateConfig { epoch_config: Some(em::EpochConfig { duration: Uint64::new(dur.saturating_add(DAY).max(DAY)), genesis_epoch: Uint64::new(g) }) }, &[]);
            if r.is_ok() {
                rep.failed("config_validation", None, format!("update re-submitting the elapsed genesis {g} (now {tnow}) with another duration accepted: epoch id was {before:?}, is {:?}", current(&w, &c).map(|e| e.epoch.id)), witness(json!({"genesis": g.to_string(), "now": tnow.to_string()})));
            } else {
                rep.held("config_validation", hash_of(&"stored_elapsed_genesis"), || json!({"update": "stored genesis, already elapsed, other duration", "result": "refused"}));
            }
        }
        let r = w.exec(&owner, &c, &em::ExecuteMsg::UpdateConfig { epoch_config: Some(newcfg.clone()) }, &[]);
        if r.is_ok() {
            rep.held("config_validation", hash_of(&"update"), || json!({"update": "valid, by owner", "result": "accepted"}));
            let mut last = None;
            let g2 = newcfg.genesis_epoch.u64();
            let d2 = newcfg.duration.u64();
            for t in [tnow, g2, g2 + d2 - 1, g2 + d2, g2 + 5 * d2 + 7] {
                if t >= tnow && t <= MAX_SECS {
                    check_at(&mut w, &c, g2, d2, t, &mut last, &mut rep);
                }
            }
        } else {
            rep.failed("config_validation", None, format!("valid update by owner refused: {}", r.short()), witness(json!({})));
        }
    }
    rep
}
