//! C19 — stableswap pricing tracks the exact invariant or fails cleanly (W-kernel: the
//! production computation paths called at their public boundary over a very wide input range).

use std::panic::{catch_unwind, AssertUnwindSafe};

use cosmwasm_std::{coin, Coin, Uint128};
use mantra_dex_std::pool_manager::{PoolInfo, PoolStatus, PoolType};
use num_bigint::BigInt;
use num_integer::Integer;
use num_traits::{Signed, ToPrimitive, Zero};
use rand::rngs::StdRng;
use rand::seq::SliceRandom;
use rand::{Rng, SeedableRng};
use serde_json::json;

use crate::exact::{bi, ceil_div, pow10, SsState};
use crate::ops::{set_ctx, witness};
use crate::report::{hash_of, Reporter};
use crate::ssx::{skew, EXTRA};
use crate::wpool::{log_uniform, pool_fee};
use crate::RunCfg;

pub struct Case {
    pub info: PoolInfo,
    pub amp: u64,
    pub decs: Vec<u8>,
    pub res: Vec<u128>,
}

/// an ordinary pool: common decimals, amplification 10..1e6, a thousand to a trillion whole
/// tokens per asset, at most 50:1 off balance
fn gen_ordinary(rng: &mut StdRng) -> (usize, Vec<u8>, u64, Vec<u128>) {
    let n = rng.gen_range(2..=4usize);
    let decs: Vec<u8> = (0..n).map(|_| *[6u8, 8, 12, 18].choose(rng).unwrap()).collect();
    let amp = log_uniform(rng, 10, 1_000_000) as u64;
    let base = log_uniform(rng, 1_000, 1_000_000_000_000);
    let res: Vec<u128> = decs
        .iter()
        .map(|d| {
            let sk = if rng.gen_bool(0.5) { 1 } else { log_uniform(rng, 1, 7) };
            (base * sk).min(9_000_000_000_000) * 10u128.pow(*d as u32) + rng.gen_range(0..10u128.pow(*d as u32))
        })
        .collect();
    (n, decs, amp, res)
}

pub fn gen_pool(rng: &mut StdRng, extremes: bool) -> Case {
    if extremes && rng.gen_range(0..4) == 0 {
        let (n, decs, amp, res) = gen_ordinary(rng);
        let denoms: Vec<String> = (0..n).map(|i| format!("tok{i}")).collect();
        let fees = match rng.gen_range(0..3) {
            0 => pool_fee(0, 0, 0, &[]),
            1 => pool_fee(rng.gen_range(0..100), rng.gen_range(0..100), rng.gen_range(0..100), &[]),
            _ => pool_fee(rng.gen_range(0..500), rng.gen_range(0..500), rng.gen_range(0..500), &[rng.gen_range(0..250), rng.gen_range(0..250)]),
        };
        let info = PoolInfo {
            pool_identifier: "o.k".into(),
            asset_denoms: denoms.clone(),
            lp_denom: "factory/x/o.k.LP".into(),
            asset_decimals: decs.clone(),
            assets: denoms.iter().zip(res.iter()).map(|(d, r)| coin(*r, d.clone())).collect(),
            pool_type: PoolType::StableSwap { amp },
            pool_fees: fees,
            status: PoolStatus::default(),
        };
        return Case { info, amp, decs, res };
    }
    let n = rng.gen_range(2..=4usize);
    let dec_choices: &[u8] = if extremes && rng.gen_range(0..4) == 0 { &[0, 1, 2, 6, 18, 19, 24] } else { &[6, 8, 12, 18] };
    let decs: Vec<u8> = (0..n).map(|_| *dec_choices.choose(rng).unwrap()).collect();
    let maxd = *decs.iter().max().unwrap() as u32;
    // pool creation accepts every amplification above zero
    let amp = match rng.gen_range(0..8) {
        0 => 1,
        1 => *[10u64, 85, 100, 2000, 1_000_000].choose(rng).unwrap(),
        2 => *[1_000_001u64, 5_000_000, 1_000_000_000, u64::MAX / 4, u64::MAX].choose(rng).unwrap(),
        3 => log_uniform(rng, 1_000_000, u64::MAX as u128) as u64,
        _ => log_uniform(rng, 1, 1_000_000) as u64,
    };
    // normalised base size, then per-asset skew up to 1000:1
    let mut res = vec![];
    loop {
        res.clear();
        // one case in twelve sits at the edge of (or beyond) the supported range: reserves whose
        // value normalised to the highest decimals approaches or exceeds 128 bits
        let edge = extremes && rng.gen_range(0..12) == 0;
        let base = if edge { log_uniform(rng, 10u128.pow(34), 3 * 10u128.pow(38)) } else { log_uniform(rng, 1, 10u128.pow(30)) };
        let mut ok = true;
        for d in &decs {
            let sk = match rng.gen_range(0..3) {
                0 => 1,
                _ => log_uniform(rng, 1, 1000),
            };
            let scale = 10u128.pow(maxd - *d as u32);
            let native = if edge { (base / scale).saturating_mul(sk).min(u128::MAX / 2) } else { base.saturating_mul(sk) / scale };
            if native == 0 || (!edge && native > 10u128.pow(30)) {
                ok = false;
                break;
            }
            res.push(native);
        }
        if ok && skew(&res, &decs) <= 1000.0 {
            break;
        }
    }
    let denoms: Vec<String> = (0..n).map(|i| format!("tok{i}")).collect();
    let fees = match rng.gen_range(0..3) {
        0 => pool_fee(0, 0, 0, &[]),
        1 => pool_fee(rng.gen_range(0..100), rng.gen_range(0..100), rng.gen_range(0..100), &[]),
        _ => pool_fee(rng.gen_range(0..500), rng.gen_range(0..500), rng.gen_range(0..500), &[rng.gen_range(0..250), rng.gen_range(0..250)]),
    };
    let info = PoolInfo {
        pool_identifier: "o.k".into(),
        asset_denoms: denoms.clone(),
        lp_denom: "factory/x/o.k.LP".into(),
        asset_decimals: decs.clone(),
        assets: denoms.iter().zip(res.iter()).map(|(d, r)| coin(*r, d.clone())).collect(),
        pool_type: PoolType::StableSwap { amp },
        pool_fees: fees,
        status: PoolStatus::default(),
    };
    Case { info, amp, decs, res }
}

fn mag(x: u128) -> i32 {
    if x == 0 {
        -1
    } else {
        (x as f64).log10() as i32
    }
}

pub fn quote_case(rng: &mut StdRng, c: &Case, rep: &mut Reporter) {
    let n = c.res.len();
    let i = rng.gen_range(0..n);
    let j = (i + 1 + rng.gen_range(0..n - 1)) % n;
    let r = c.res[i];
    let offer = match rng.gen_range(0..10) {
        0 => 1,
        1 => rng.gen_range(1..100),
        2 => r.saturating_mul(rng.gen_range(1..4)),
        3 => log_uniform(rng, (r / 10).max(1), r.max(2)),
        _ => log_uniform(rng, 1, (r / 10).max(2)),
    };
    let offer_coin = Coin { denom: c.info.asset_denoms[i].clone(), amount: Uint128::new(offer) };
    let ask = c.info.asset_denoms[j].clone();
    let info = &c.info;
    let r = catch_unwind(AssertUnwindSafe(|| pool_manager::helpers::compute_swap(info, &offer_coin, &ask)));
    let sk = skew(&c.res, &c.decs);
    let regime = (c.amp as u128) * (n as u128) < 100 || sk >= 100.0;
    let ctx = || {
        json!({"amp": c.amp, "decimals": c.decs, "reserves": c.res.iter().map(|x| x.to_string()).collect::<Vec<_>>(), "offer_index": i, "ask_index": j, "offer": offer.to_string(), "skew": sk})
    };
    // the core of the supported range - ordinary pools and ordinary trades: amplification 10..1e6,
    // reserves between a thousand and ten trillion whole tokens, at most 100:1 off balance,
    // common decimals, an offer between a millionth and a tenth of the reserve. Here a quote
    // must exist (the statement's accuracy clause is about a quote that is there)
    let whole = |r: u128, d: u8| (r as f64) / 10f64.powi(d as i32);
    let core = c.amp >= 10
        && c.amp <= 1_000_000
        && sk < 100.0
        && c.decs.iter().all(|d| [6u8, 8, 12, 18].contains(d))
        && c.res.iter().zip(c.decs.iter()).all(|(r, d)| whole(*r, *d) >= 1e3 && whole(*r, *d) < 1e13)
        && (offer as f64) * 1e6 >= c.res[i] as f64
        && (offer as f64) * 10.0 <= c.res[i] as f64;
    if core {
        match &r {
            Ok(Ok(_)) => rep.held("core_range_quotes", hash_of(&(n, &c.decs, mag(c.amp as u128), i, j)), || json!({"case": ctx(), "result": "quoted"})),
            Ok(Err(e)) => rep.failed("core_range_quotes", None, format!("an ordinary trade on an ordinary pool gets no quote: {e}"), witness(json!({"case": ctx(), "error": e.to_string()}))),
            Err(_) => rep.failed("core_range_quotes", None, "an ordinary trade on an ordinary pool aborts".to_string(), witness(json!({"case": ctx()}))),
        }
    }
    let comp = match r {
        Ok(Ok(x)) => x,
        Ok(Err(e)) => {
            if std::env::var("VERIF_C19_DEBUG").is_ok() {
                let norm: Vec<i32> = c.res.iter().zip(c.decs.iter()).map(|(r, d)| mag(*r) - *d as i32).collect();
                rep.count("fails_cleanly", &format!("DBG err={} amp_mag={} skew_mag={} offer_rel={} minwhole={} maxwhole={} maxdec={}", crate::ops::err_class(&e.to_string()), mag(c.amp as u128), mag(sk as u128), mag(offer) - mag(c.res[i]), norm.iter().min().unwrap(), norm.iter().max().unwrap(), c.decs.iter().max().unwrap()));
            }
            rep.held("fails_cleanly", hash_of(&("err", crate::ops::err_class(&e.to_string()), n)), || json!({"case": ctx(), "result": format!("error: {e}")}));
            return;
        }
        Err(_) => {
            if std::env::var("VERIF_C19_DEBUG").is_ok() {
                let norm: Vec<i32> = c.res.iter().zip(c.decs.iter()).map(|(r, d)| mag(*r) - *d as i32).collect();
                rep.count("fails_cleanly", &format!("DBG abort amp_mag={} skew_mag={} offer_rel={} minwhole={} maxwhole={} maxdec={}", mag(c.amp as u128), mag(sk as u128), mag(offer) - mag(c.res[i]), norm.iter().min().unwrap(), norm.iter().max().unwrap(), c.decs.iter().max().unwrap()));
            }
            rep.held("fails_cleanly", hash_of(&("abort", n, mag(offer))), || json!({"case": ctx(), "result": "abort"}));
            return;
        }
    };
    let gross = comp.return_amount.u128() + comp.swap_fee_amount.u128() + comp.protocol_fee_amount.u128() + comp.burn_fee_amount.u128() + comp.extra_fees_amount.u128();
    judge_quote(c.amp, &c.decs, &c.res, i, j, offer, gross, "kernel", rep);
}

/// compare one quote (gross output before fees) with the exact solution of the invariant
pub fn judge_quote(amp: u64, decs: &[u8], res: &[u128], i: usize, j: usize, offer: u128, gross: u128, via: &str, rep: &mut Reporter) {
    let n = res.len();
    let sk = skew(res, decs);
    let regime = (amp as u128) * (n as u128) < 100 || sk >= 100.0;
    let ctx = || {
        json!({"via": via, "amp": amp, "decimals": decs, "reserves": res.iter().map(|x| x.to_string()).collect::<Vec<_>>(), "offer_index": i, "ask_index": j, "offer": offer.to_string(), "skew": sk})
    };
    struct C<'a> { amp: u64, decs: &'a [u8], res: &'a [u128] }
    let c = C { amp, decs, res };
    let abs = hash_of(&(via, n, c.decs, mag(c.amp as u128), mag(offer), mag(c.res[i]), i, j));
    if gross > c.res[j] {
        rep.failed("never_exceeds_reserve", None, format!("gross output {gross} exceeds the ask reserve {}", c.res[j]), witness(ctx()));
        return;
    }
    rep.held("never_exceeds_reserve", abs, || json!({"case": ctx(), "gross": gross.to_string()}));

    let st = SsState::new(c.amp, c.res, c.decs, EXTRA);
    let d0 = st.d_floor();
    let (out_lo, out_hi) = st.out_bounds(i, j, &bi(offer), &d0);
    let unit = &st.unit[j];
    let g = bi(gross) * unit;
    // accuracy band: 2 ask units + exact value of 2 offered units
    let (_, v2_hi) = st.out_bounds(i, j, &bi(2), &d0);
    let band_units = bi(2) + ceil_div(&v2_hi.max(BigInt::zero()), unit);
    let band = &band_units * unit;
    if g <= &out_hi + &band && g >= &out_lo - &band {
        rep.held("quote_accuracy", abs, || json!({"case": ctx(), "gross": gross.to_string(), "exact_lo": (&out_lo).div_floor(unit).to_string(), "band_units": band_units.to_string()}));
        return;
    }
    // the swap path works in whole tokens with 18 fractional digits: products of two pool-sized
    // quantities keep about S_tokens^2 * 1e18 significant steps, so once the pool's total is
    // below ~10^(maxd-18) tokens the result is not even accurate to single units
    let maxd_u = *c.decs.iter().max().unwrap() as u32;
    let s_norm: BigInt = c.res.iter().zip(c.decs.iter()).map(|(r, d)| bi(*r) * pow10(maxd_u - *d as u32)).sum();
    let collapse = maxd_u >= 9 && s_norm < pow10(2 * maxd_u - 17);
    if g > &out_hi + &band {
        // over-quote
        let over = &g - &out_hi;
        let kf = if collapse {
            Some("KF-C19-d")
        } else if regime && over <= &band * bi(crate::ssx::kf_b_cap(n, sk).ceil() as u128) {
            Some("KF-C19-b")
        } else {
            None
        };
        rep.failed(
            "quote_accuracy",
            kf,
            format!("quote {gross} exceeds the exact output {} by more than the band of {band_units} units", out_hi.div_floor(unit)),
            witness(json!({"case": ctx(), "gross": gross.to_string(), "exact": out_hi.div_floor(unit).to_string(), "over_units": over.div_floor(unit).to_string(), "band_units": band_units.to_string()})),
        );
    } else {
        // under-quote: explained by the swap path solving D only to within a whole token?
        let maxd = *c.decs.iter().max().unwrap() as u32;
        let token = pow10(maxd) * pow10(EXTRA);
        let d_hi = &d0 + bi(4) * &token;
        let mut xs = st.xs.clone();
        xs[i] += bi(offer) * &st.unit[i];
        let y = st.curve.y_ceil(&xs, j, &d_hi, &st.xs[j]);
        let out_d4 = &st.xs[j] - &y; // exact output had D been 4 tokens larger (may be negative)
        let kf = if collapse {
            Some("KF-C19-d")
        } else if g >= &out_d4 - &band {
            Some("KF-C19-a")
        } else {
            None
        };
        rep.failed(
            "quote_accuracy",
            kf,
            format!("quote {gross} is below the exact output {} by more than the band of {band_units} units", out_lo.div_floor(unit)),
            witness(json!({"case": ctx(), "gross": gross.to_string(), "exact": out_lo.div_floor(unit).to_string(), "exact_if_D_4_tokens_larger": out_d4.div_floor(unit).to_string(), "band_units": band_units.to_string()})),
        );
    }
}

/// debugging aid (CLI `dcalc`): the contract's mint-path D next to the exact one
pub fn dcalc(amp: u64, decs: &[u8], res: &[u128]) -> String {
    let n = res.len();
    let denoms: Vec<String> = (0..n).map(|i| format!("tok{i}")).collect();
    let info = PoolInfo {
        pool_identifier: "o.k".into(),
        asset_denoms: denoms.clone(),
        lp_denom: "factory/x/o.k.LP".into(),
        asset_decimals: decs.to_vec(),
        assets: denoms.iter().zip(res.iter()).map(|(d, r)| coin(*r, d.clone())).collect(),
        pool_type: PoolType::StableSwap { amp },
        pool_fees: pool_fee(0, 0, 0, &[]),
        status: PoolStatus::default(),
    };
    let r = catch_unwind(AssertUnwindSafe(|| pool_manager::helpers::compute_d_with_pool_info(&amp, &info.assets, &info)));
    let exact = SsState::new(amp, res, decs, 0).d_floor();
    format!("contract: {:?}\nexact:    {}", r.map(|o| o.map(|d| d.to_string())), exact)
}

/// debugging aid (CLI `mintcalc`): LP minted by the contract's stableswap deposit formula
pub fn mintcalc(amp: u64, decs: &[u8], old: &[u128], new: &[u128], supply: u128, swap_fee_bps: u64) -> String {
    let n = old.len();
    let denoms: Vec<String> = (0..n).map(|i| format!("tok{i}")).collect();
    let info = PoolInfo {
        pool_identifier: "o.k".into(),
        asset_denoms: denoms.clone(),
        lp_denom: "factory/x/o.k.LP".into(),
        asset_decimals: decs.to_vec(),
        assets: denoms.iter().zip(old.iter()).map(|(d, r)| coin(*r, d.clone())).collect(),
        pool_type: PoolType::StableSwap { amp },
        pool_fees: pool_fee(0, swap_fee_bps, 0, &[]),
        status: PoolStatus::default(),
    };
    let o: Vec<Coin> = denoms.iter().zip(old.iter()).map(|(d, r)| coin(*r, d.clone())).collect();
    let nw: Vec<Coin> = denoms.iter().zip(new.iter()).map(|(d, r)| coin(*r, d.clone())).collect();
    let r = catch_unwind(AssertUnwindSafe(|| pool_manager::helpers::compute_lp_mint_amount_for_stableswap_deposit(&amp, &o, &nw, Uint128::new(supply), &info)));
    format!("{:?}", r.map(|x| x.map(|y| y.map(|z| z.to_string())).map_err(|e| e.to_string())))
}

pub fn d_case(c: &Case, rep: &mut Reporter) {
    let n = c.res.len();
    let info = &c.info;
    let amp = c.amp;
    let r = catch_unwind(AssertUnwindSafe(|| pool_manager::helpers::compute_d_with_pool_info(&amp, &info.assets, info)));
    let sk = skew(&c.res, &c.decs);
    let ctx = || json!({"amp": c.amp, "decimals": c.decs, "reserves": c.res.iter().map(|x| x.to_string()).collect::<Vec<_>>(), "skew": sk});
    let d_impl = match r {
        Ok(Some(d)) => d.to_string().parse::<BigInt>().unwrap(),
        Ok(None) => {
            rep.held("fails_cleanly", hash_of(&("d_none", n)), || json!({"case": ctx(), "result": "no invariant returned"}));
            return;
        }
        Err(_) => {
            rep.held("fails_cleanly", hash_of(&("d_abort", n)), || json!({"case": ctx(), "result": "abort"}));
            return;
        }
    };
    let d_exact = SsState::new(c.amp, &c.res, &c.decs, 0).d_floor();
    let err = &d_impl - &d_exact;
    let abs = hash_of(&(n, &c.decs, mag(c.amp as u128), mag(c.res[0]), (sk as u64).min(1000) / 50));
    if !err.is_negative() && err <= bi(2) || (err.is_negative() && err >= BigInt::from(-2)) {
        rep.held("d_accuracy", abs, || json!({"case": ctx(), "D_mint_path": d_impl.to_string(), "floor_exact_D": d_exact.to_string()}));
        // the deposit that opens a pool is minted at the invariant of what it brings: the same
        // balance set as a first deposit must give that D (where it fits 128 bits)
        let zeros: Vec<Coin> = info.assets.iter().map(|c| coin(0, c.denom.clone())).collect();
        let mut empty = info.clone();
        empty.assets = zeros.clone();
        let first = catch_unwind(AssertUnwindSafe(|| pool_manager::helpers::compute_lp_mint_amount_for_stableswap_deposit(&amp, &zeros, &info.assets, Uint128::zero(), &empty)));
        if let Ok(Ok(Some(m))) = first {
            // (the function returns D less the minimum liquidity that stays locked: 1000 units
            // scaled by a power of ten to the pool's precision)
            let e1 = bi(m.u128()) - &d_exact;
            let locked_ok = (0..=33u32).any(|k| (&e1 + bi(1000) * pow10(k)).abs() <= bi(2));
            if locked_ok || e1.clone().abs() <= bi(2) {
                rep.held("d_accuracy", hash_of(&("first_deposit", n, &c.decs, mag(c.res[0]))), || json!({"case": ctx(), "first_deposit_mint": m.to_string(), "floor_exact_D": d_exact.to_string()}));
            } else {
                rep.failed("d_accuracy", None, format!("the opening deposit of this balance set is minted at {m}, {e1} units off the exact root {d_exact} (the invariant computed for the same balances is within two units)"), witness(json!({"case": ctx(), "first_deposit_mint": m.to_string(), "floor_exact_D": d_exact.to_string()})));
            }
        }
    } else {
        let cap = 2.0 + (n as f64) * sk / 8.0;
        let e = err.to_f64().unwrap_or(f64::INFINITY);
        // (same regime as KF-C02-b: low amplification, or a balance set at least 1000:1 off balance)
        let kf = if e > 0.0 && (e <= 8.0 || (e <= cap && sk >= 50.0 && ((c.amp as f64) * (n as f64) < 400.0 || sk >= 1000.0))) { Some("KF-C19-c") } else { None };
        rep.failed(
            "d_accuracy",
            kf,
            format!("invariant used for minting {d_impl} differs from the exact root {d_exact} by {err} units"),
            witness(json!({"case": ctx(), "D_mint_path": d_impl.to_string(), "floor_exact_D": d_exact.to_string(), "error": err.to_string()})),
        );
    }
}

pub fn shard(cfg: &RunCfg, shard: usize, n: usize) -> Reporter {
    let mut rep = Reporter::new("C19");
    let mut rng = StdRng::seed_from_u64(cfg.seed.wrapping_mul(104_729).wrapping_add(shard as u64));
    set_ctx(format!("workload=W-kernel seed={} shard={shard}", cfg.seed));
    for k in 0..n {
        let c = gen_pool(&mut rng, true);
        for _ in 0..3 {
            quote_case(&mut rng, &c, &mut rep);
        }
        if k % 2 == 0 {
            d_case(&c, &mut rep);
        }
        if k % 10 == 5 {
            // the mint path on very lopsided balance sets (up to 1e7 : 1 on top of the case's own
            // skew): many more Newton steps are needed there
            let mut c2 = Case { info: c.info.clone(), amp: c.amp, decs: c.decs.clone(), res: c.res.clone() };
            let i = rng.gen_range(0..c2.res.len());
            let f = 10u128.pow(rng.gen_range(3..8));
            if let Some(x) = c2.res[i].checked_mul(f) {
                if x < 10u128.pow(33) {
                    c2.res[i] = x;
                    c2.info.assets[i].amount = Uint128::new(x);
                    d_case(&c2, &mut rep);
                }
            }
        }
    }
    rep
}


/// the same judgement on the deployed path: every executed stableswap hop of W-pool and a
/// Simulation query per step
pub struct Deployed {
    rng: StdRng,
}

impl Deployed {
    pub fn new(seed: u64) -> Deployed {
        Deployed { rng: StdRng::seed_from_u64(seed ^ 0xC19) }
    }
}

impl crate::ops::Monitor for Deployed {
    fn step(&mut self, w: &mut crate::world::World, s: &crate::ops::Step, rep: &mut Reporter) {
        use crate::poolev::{parse_events, timeline, PoolEv};
        if s.out.is_ok() {
            if let Ok(evs) = parse_events(s.out, &w.pm) {
                if let Ok(tl) = timeline(s.pre, s.post, &evs) {
                    for t in &tl {
                        if let (PoolEv::Swap(sw), Some(p)) = (&t.ev, s.pre.pools.get(&t.pool)) {
                            if let (Some(amp), Some(i), Some(j)) = (p.amp(), p.canon_index(&sw.offer_denom), p.canon_index(&sw.ask_denom)) {
                                if i == j {
                                    continue;
                                }
                                let before = p.canon(&t.before);
                                // gross = what left the ask reserve + what stayed in it as fees
                                let f = &p.info.pool_fees;
                                let cands = crate::poolev::gross_candidates(sw.return_amount, f);
                                let g = match sw.extra_fees {
                                    Some(e) => Some(sw.return_amount + sw.swap_fee + sw.protocol_fee + sw.burn_fee + e),
                                    None => cands.into_iter().find(|g| {
                                        let x = crate::poolev::fees_of(*g, f);
                                        x.swap == sw.swap_fee && x.protocol == sw.protocol_fee && x.burn == sw.burn_fee
                                    }),
                                };
                                if let Some(g) = g {
                                    judge_quote(amp, &p.info.asset_decimals, &before, i, j, sw.offer_amount, g, "executed hop", rep);
                                }
                            }
                        }
                    }
                }
            }
        }
        // a Simulation on a random stableswap pool of the reached state
        let ss: Vec<&crate::ops::PoolView> = s.post.pools.values().filter(|p| !p.is_cp() && p.funded()).collect();
        if let Some(p) = ss.choose(&mut self.rng) {
            let n = p.info.asset_denoms.len();
            let i = self.rng.gen_range(0..n);
            let j = (i + 1 + self.rng.gen_range(0..n - 1)) % n;
            let res = p.canon_reserves();
            let offer = match self.rng.gen_range(0..6) {
                0 => self.rng.gen_range(1..100),
                1 => res[i].saturating_mul(2),
                _ => log_uniform(&mut self.rng, 1, res[i].max(2)),
            };
            let q: Result<mantra_dex_std::pool_manager::SimulationResponse, String> = w.query(
                &w.pm,
                &mantra_dex_std::pool_manager::QueryMsg::Simulation {
                    offer_asset: coin(offer, p.info.asset_denoms[i].clone()),
                    ask_asset_denom: p.info.asset_denoms[j].clone(),
                    pool_identifier: p.info.pool_identifier.clone(),
                },
            );
            match q {
                Ok(q) => {
                    let g = q.return_amount.u128() + q.swap_fee_amount.u128() + q.protocol_fee_amount.u128() + q.burn_fee_amount.u128() + q.extra_fees_amount.u128();
                    if g > res[j] {
                        rep.failed("never_exceeds_reserve", None, format!("Simulation on {} returns {g} > reserve {}", p.info.pool_identifier, res[j]), witness(json!({"pool": p.info.pool_identifier})));
                    } else {
                        judge_quote(p.amp().unwrap(), &p.info.asset_decimals, &res, i, j, offer, g, "Simulation query", rep);
                        rep.count("core_range_quotes", "deployed_simulations_answered");
                    }
                }
                Err(e) => {
                    // an ordinary pool and an ordinary offer (see `quote_case`) must be quoted
                    let amp = p.amp().unwrap();
                    let decs = &p.info.asset_decimals;
                    let whole = |r: u128, d: u8| (r as f64) / 10f64.powi(d as i32);
                    let core = amp >= 10
                        && amp <= 1_000_000
                        && skew(&res, decs) < 100.0
                        && decs.iter().all(|d| [6u8, 8, 12, 18].contains(d))
                        && res.iter().zip(decs.iter()).all(|(r, d)| whole(*r, *d) >= 1e3 && whole(*r, *d) < 1e13)
                        && (offer as f64) * 1e6 >= res[i] as f64
                        && (offer as f64) * 10.0 <= res[i] as f64;
                    if core {
                        rep.failed("core_range_quotes", None, format!("Simulation of an ordinary trade on the ordinary pool {} fails: {e}", p.info.pool_identifier), witness(json!({"pool": p.info.pool_identifier, "amp": amp, "decimals": decs, "reserves": res.iter().map(|x| x.to_string()).collect::<Vec<_>>(), "offer": offer.to_string(), "offer_index": i, "ask_index": j, "error": e})));
                    }
                    rep.held("fails_cleanly", hash_of(&("sim", crate::ops::err_class(&e))), || json!({"pool": p.info.pool_identifier, "offer": offer.to_string(), "result": e}));
                }
            }
        }
    }
}
