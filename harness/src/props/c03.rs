//! C03 — swaps never reduce pool value; no sequence of swaps (there and back) is profitable.

use cosmwasm_std::{coin, Addr, Decimal};
use num_bigint::BigInt;
use rand::rngs::StdRng;
use rand::seq::SliceRandom;
use rand::{Rng, SeedableRng};
use serde_json::json;

use crate::ops::{observe, witness, Monitor, Obs, PoolView, Step};
use crate::poolev::{jres, parse_events, timeline, PoolEv, SwapEv, Transition};
use crate::report::{hash_of, Reporter};
use crate::ssx::{hop_invariant, low_amp_or_skewed, InvariantVerdict};
use crate::world::World;
use crate::wpool::{log_uniform, pool_fee, swap_op};

pub struct C03 {
    rng: StdRng,
    pub round_trip_every: usize,
}

impl C03 {
    pub fn new(seed: u64) -> C03 {
        C03 {
            rng: StdRng::seed_from_u64(seed ^ 0xC03),
            round_trip_every: 6,
        }
    }
}


/// Judge one executed hop. Returns (deficit, band) when a stableswap hop lowered the invariant.
pub fn judge_hop(p: &PoolView, t: &Transition, sw: &SwapEv, rep: &mut Reporter, ctx: &str) -> Option<(f64, f64)> {
    let i = p.canon_index(&sw.offer_denom)?;
    let j = p.canon_index(&sw.ask_denom)?;
    let before = p.canon(&t.before);
    let after = p.canon(&t.after);
    let mag = (sw.offer_amount as f64).log10() as i32;
    if p.is_cp() {
        let k0 = BigInt::from(before[0]) * BigInt::from(before[1]);
        let k1 = BigInt::from(after[0]) * BigInt::from(after[1]);
        let abs = hash_of(&("cp", &t.pool, i, mag, sw.routed));
        if k1 >= k0 {
            rep.held("cp_k", abs, || {
                json!({"pool": t.pool, "ctx": ctx, "before": jres(&t.before), "after": jres(&t.after), "k_before": k0.to_string(), "k_after": k1.to_string()})
            });
        } else {
            rep.failed(
                "cp_k",
                None,
                format!("{ctx}: pool {} x*y fell from {k0} to {k1} by swapping {}{}", t.pool, sw.offer_amount, sw.offer_denom),
                witness(json!({"pool": t.pool, "before": jres(&t.before), "after": jres(&t.after), "hop": format!("{sw:?}")})),
            );
        }
        None
    } else {
        let amp = p.amp().unwrap();
        let decs = &p.info.asset_decimals;
        let abs = hash_of(&("ss", &t.pool, i, j, mag, sw.routed));
        match hop_invariant(amp, decs, &before, &after, i, j) {
            InvariantVerdict::Held => {
                rep.held("ss_D", abs, || {
                    json!({"pool": t.pool, "ctx": ctx, "amp": amp, "decimals": decs, "before": jres(&t.before), "after": jres(&t.after), "verdict": "exact D did not decrease"})
                });
                None
            }
            InvariantVerdict::Dropped { deficit, band, within_band, within_8_bands } => {
                let regime = low_amp_or_skewed(amp, before.len(), &before, decs);
                let kf = if crate::ssx::collapse_regime(&before, decs) {
                    Some("KF-C03-c")
                } else if within_band {
                    Some("KF-C03-a")
                } else if regime && (within_8_bands || deficit <= band * crate::ssx::kf_b_cap(before.len(), crate::ssx::skew(&before, decs))) {
                    Some("KF-C03-b")
                } else {
                    None
                };
                rep.failed(
                    "ss_D",
                    kf,
                    format!(
                        "{ctx}: pool {} (amp {amp}) exact invariant decreased: ask reserve {:.6} units short of the invariant-preserving value (accuracy band {band} units) after swapping {}{} for {}",
                        t.pool, deficit, sw.offer_amount, sw.offer_denom, sw.ask_denom
                    ),
                    witness(json!({"pool": t.pool, "amp": amp, "decimals": decs, "before": jres(&t.before), "after": jres(&t.after),
                                   "deficit_ask_units": deficit, "band_units": band, "hop": format!("{sw:?}")})),
                );
                Some((deficit, band))
            }
        }
    }
}

impl C03 {
    /// there-and-back through the same pools, proceeds returned in 1..4 chunks
    fn round_trip(&mut self, w: &mut World, obs: &Obs, rep: &mut Reporter) {
        let funded: Vec<&PoolView> = obs.pools.values().filter(|p| p.funded() && p.info.status.swaps_enabled).collect();
        if funded.is_empty() {
            return;
        }
        let snap = w.snapshot();
        let trader: Addr = w.users[self.rng.gen_range(0..w.users.len())].clone();
        // forward path of 1..3 hops
        let first = *funded.choose(&mut self.rng).unwrap();
        let start = first.info.assets.choose(&mut self.rng).unwrap().denom.clone();
        let mut cur = start.clone();
        let mut path: Vec<(String, String, String)> = vec![]; // pool, in, out
        // one trip in three goes through the router: each leg is one routed message of 2..5 hops
        let via_router = self.rng.gen_range(0..3) == 0;
        let len = if via_router { self.rng.gen_range(2..=5usize) } else { self.rng.gen_range(1..=3usize) };
        for h in 0..len {
            let cands: Vec<&&PoolView> = funded
                .iter()
                .filter(|p| p.index_of(&cur).is_some())
                .filter(|p| h > 0 || p.info.pool_identifier == first.info.pool_identifier)
                // each pool at most once: then every pool sees exactly "there, then back" on one
                // pair with nothing in between, which is what the no-profit claim rests on (a
                // multi-asset pool revisited on another pair is ordinary cross-pool arbitrage)
                .filter(|p| !path.iter().any(|(id, _, _)| *id == p.info.pool_identifier))
                .collect();
            let p = match cands.choose(&mut self.rng) {
                Some(p) => **p,
                None => break,
            };
            let outs: Vec<String> = p.info.assets.iter().map(|c| c.denom.clone()).filter(|d| *d != cur).collect();
            let out = outs.choose(&mut self.rng).unwrap().clone();
            path.push((p.info.pool_identifier.clone(), cur.clone(), out.clone()));
            cur = out;
        }
        let r0 = first.reserve(&start).max(2);
        let amount = match self.rng.gen_range(0..8) {
            0 => self.rng.gen_range(1..1000),
            1 => r0,
            _ => log_uniform(&mut self.rng, (r0 / 100_000_000).max(1), r0 / 3 + 1),
        };
        let chunks = self.rng.gen_range(1..=4u128);
        let slip = Some(Decimal::percent(50));
        let x0 = w.balance(&trader, &start);
        let mut touches_ss = false;
        let mut all_cp = true;
        // per stableswap hop: (deficit in ask units, band in ask units, ask denom)
        let mut dust: Vec<(f64, f64, String, usize)> = vec![];
        // realised hops (in amount, out amount, in denom, out denom) for valuing dust in X
        let mut executed: Vec<(u128, u128, String, String)> = vec![];
        let margins_cell: std::cell::RefCell<Vec<(usize, f64)>> = std::cell::RefCell::new(vec![]);
        let mut ok = true;

        let mut run_leg = |w: &mut World, rep: &mut Reporter, hops: &[(String, String, String)], amt: u128, dust: &mut Vec<(f64, f64, String, usize)>, executed: &mut Vec<(u128, u128, String, String)>, touches_ss: &mut bool, all_cp: &mut bool| -> Option<u128> {
            if amt == 0 || hops.is_empty() {
                return Some(0);
            }
            let pre = observe(w);
            let last_denom = hops[hops.len() - 1].2.clone();
            let b0 = w.balance(&trader, &last_denom);
            let op = if hops.len() == 1 {
                swap_op(&trader, &hops[0].0, coin(amt, hops[0].1.clone()), &hops[0].2, None, slip, None)
            } else {
                crate::ops::Op::Pm {
                    sender: trader.clone(),
                    msg: mantra_dex_std::pool_manager::ExecuteMsg::ExecuteSwapOperations {
                        operations: hops.iter().map(|(pool, din, dout)| mantra_dex_std::pool_manager::SwapOperation::MantraSwap { token_in_denom: din.clone(), token_out_denom: dout.clone(), pool_identifier: pool.clone() }).collect(),
                        minimum_receive: None,
                        receiver: None,
                        max_slippage: slip,
                    },
                    funds: vec![coin(amt, hops[0].1.clone())],
                }
            };
            let out = w.apply(&op);
            if !out.is_ok() {
                return None;
            }
            let post = observe(w);
            let evs = parse_events(&out, &w.pm).ok()?;
            let tl = timeline(&pre, &post, &evs).ok()?;
            let mut got = 0;
            for t in &tl {
                if let PoolEv::Swap(sw) = &t.ev {
                    let p = pre.pools.get(&t.pool)?;
                    if !p.is_cp() {
                        *touches_ss = true;
                        *all_cp = false;
                    }
                    if let Some((d, b)) = judge_hop(p, t, sw, rep, "round-trip fork") {
                        dust.push((d, b, sw.ask_denom.clone(), executed.len()));
                    }
                    // marginal price at this hop's start (stableswap hops), for valuing the dust
                    // of earlier hops in a token that is scarce right now
                    if let (Some(amp), Some(i), Some(j)) = (p.amp(), p.canon_index(&sw.offer_denom), p.canon_index(&sw.ask_denom)) {
                        let before = p.canon(&t.before);
                        margins_cell.borrow_mut().push((executed.len(), crate::ssx::marginal_price(amp, &p.info.asset_decimals, &before, i, j)));
                    }
                    got = sw.return_amount;
                    executed.push((sw.offer_amount, sw.return_amount, sw.offer_denom.clone(), sw.ask_denom.clone()));
                }
            }
            // what the trader really received for the leg (a routed leg pays once, at its end)
            if hops.len() > 1 {
                let paid_in_same = if hops[0].1 == last_denom { amt } else { 0 };
                got = (w.balance(&trader, &last_denom) + paid_in_same).saturating_sub(b0);
            }
            Some(got)
        };

        // forward
        let mut amt = amount;
        let fwd_legs: Vec<Vec<(String, String, String)>> = if via_router { vec![path.clone()] } else { path.iter().map(|h| vec![h.clone()]).collect() };
        for leg in &fwd_legs {
            match run_leg(w, rep, leg, amt, &mut dust, &mut executed, &mut touches_ss, &mut all_cp) {
                Some(g) => amt = g,
                None => {
                    ok = false;
                    break;
                }
            }
        }
        // back, in chunks
        if ok && amt > 0 {
            let total = amt;
            let mut left = total;
            for c in 0..chunks {
                let part = if c == chunks - 1 { left } else { (total / chunks).min(left) };
                left -= part;
                let mut a = part;
                let back: Vec<(String, String, String)> = path.iter().rev().map(|(pool, din, dout)| (pool.clone(), dout.clone(), din.clone())).collect();
                let back_legs: Vec<Vec<(String, String, String)>> = if via_router { vec![back] } else { back.into_iter().map(|h| vec![h]).collect() };
                for leg in &back_legs {
                    match run_leg(w, rep, leg, a, &mut dust, &mut executed, &mut touches_ss, &mut all_cp) {
                        Some(g) => a = g,
                        None => {
                            ok = false;
                            break;
                        }
                    }
                }
                if !ok {
                    break;
                }
            }
        }
        if ok {
            let x1 = w.balance(&trader, &start);
            let abs = hash_of(&(path.len(), via_router, chunks, all_cp, (amount as f64).log10() as i32, path.iter().map(|p| p.0.clone()).collect::<Vec<_>>()));
            if x1 <= x0 {
                rep.held("round_trip", abs, || {
                    json!({"path": path, "each_leg_one_routed_message": via_router, "amount": amount.to_string(), "return_chunks": chunks, "start_balance": x0.to_string(), "end_balance": x1.to_string()})
                });
            } else {
                let gain = x1 - x0;
                // value of the stableswap hops' permitted dust, carried to X along the realised or marginal rates, whichever is larger (x4, +2)
                let mut allowed: f64 = 2.0;
                let margins = margins_cell.borrow().clone();
                for (d, _b, denom, at) in &dust {
                    // the dust sits in `denom` right after executed hop `at`; carry it to the start
                    // token along the hops realised afterwards (first matching hop = best rate)
                    let mut v = *d;
                    let mut cur = denom.clone();
                    let mut from = *at + 1;
                    let mut best = if cur == start { v } else { 0.0 };
                    let mut guard = 0;
                    while guard < 16 {
                        guard += 1;
                        let nxt = executed.iter().enumerate().skip(from).find(|(_, (_, _, id, _))| *id == cur);
                        match nxt {
                            Some((k, (i, o, _, od))) if *i > 0 => {
                                // one unit of a scarce token can be worth far more at the margin
                                // than at the hop's average rate: a stableswap hop's band is
                                // 2 + the value of 2 offered units, i.e. it carries the marginal
                                // price at the hop's start
                                let marginal = margins.iter().find(|(at2, _)| *at2 == k).map(|(_, m)| *m).unwrap_or(0.0);
                                v = v * ((*o as f64) / (*i as f64)).max(marginal);
                                cur = od.clone();
                                from = k + 1;
                                if cur == start && v > best {
                                    best = v;
                                }
                            }
                            _ => break,
                        }
                    }
                    allowed += 4.0 * best;
                }
                let kf = if touches_ss && !dust.is_empty() && (gain as f64) <= allowed {
                    // (deficits of hops in the fixed-point collapse regime are in `dust` too)
                    Some("KF-C03-a")
                } else {
                    None
                };
                rep.failed(
                    "round_trip",
                    kf,
                    format!("trader ended a there-and-back trade of {amount}{start} through {:?} with {gain} more {start} than they started with", path),
                    witness(json!({"path": path, "amount": amount.to_string(), "return_chunks": chunks, "gain": gain.to_string(),
                                   "pools_before": path.iter().filter_map(|(id, _, _)| obs.pools.get(id)).map(|p| json!({"id": p.info.pool_identifier, "type": format!("{:?}", p.info.pool_type), "decimals": p.info.asset_decimals, "fees": format!("{:?}", p.info.pool_fees), "reserves": p.info.assets.iter().map(|c| c.to_string()).collect::<Vec<_>>()})).collect::<Vec<_>>(),
                                   "stableswap_hop_dust": dust.iter().map(|(d,b,n,at)| json!({"deficit": d, "band": b, "denom": n, "after_hop": at})).collect::<Vec<_>>(),
                                   "allowed_by_known_dust": allowed,
                                   "executed_hops": executed.iter().map(|(i,o,a,b)| format!("{i}{a} -> {o}{b}")).collect::<Vec<_>>() })),
                );
            }
        } else {
            rep.skipped("round_trip");
        }
        w.restore(&snap);
    }
}

impl Monitor for C03 {
    fn step(&mut self, w: &mut World, s: &Step, rep: &mut Reporter) {
        if s.out.is_ok() {
            if let Ok(evs) = parse_events(s.out, &w.pm) {
                match timeline(s.pre, s.post, &evs) {
                    Ok(tl) => {
                        let single = evs.iter().any(|e| matches!(e, PoolEv::SingleSide));
                        for t in &tl {
                            if let PoolEv::Swap(sw) = &t.ev {
                                if let Some(p) = s.pre.pools.get(&t.pool) {
                                    let ctx = if single {
                                        "internal swap of a single-asset deposit"
                                    } else if sw.routed {
                                        "routed hop"
                                    } else {
                                        "direct swap"
                                    };
                                    rep.count("hops", ctx);
                                    judge_hop(p, t, sw, rep, ctx);
                                }
                            }
                        }
                    }
                    Err(e) => rep.failed("events", None, e, witness(json!({}))),
                }
            }
        }
        if s.idx % self.round_trip_every == 0 {
            self.round_trip(w, s.post, rep);
        }
    }
}


/// W-kernel for the constant-product branch: the production `compute_swap` on generated states,
/// biased towards the places where a rounding direction can flip (huge reserves, integer price
/// ratios, powers of ten, dust offers).  Zero-fee value preservation x'y' >= xy is equivalent to
/// gross output <= floor(ask * offer / (offer_pool + offer)).
pub fn cp_kernel(seed: u64, n: usize) -> Reporter {
    use crate::exact::bi;
    use cosmwasm_std::Uint128;
    use mantra_dex_std::pool_manager::{PoolInfo, PoolStatus, PoolType};
    use num_integer::Integer;
    let mut rep = Reporter::new("C03");
    let mut rng = StdRng::seed_from_u64(seed ^ 0xC03C);
    crate::ops::set_ctx(format!("workload=W-kernel (constant product) seed={seed}"));
    for _ in 0..n {
        let base: u128 = match rng.gen_range(0..5) {
            0 => 10u128.pow(rng.gen_range(3..31)),
            1 => log_uniform(&mut rng, 1_000, 10u128.pow(30)),
            2 => 10u128.pow(rng.gen_range(18..31)),
            _ => log_uniform(&mut rng, 10u128.pow(12), 10u128.pow(27)),
        };
        let ratio: u128 = match rng.gen_range(0..5) {
            0 => 1,
            1 => rng.gen_range(1..10),
            2 => 10u128.pow(rng.gen_range(0..7)),
            _ => 0, // unrelated second reserve
        };
        let (ro, ra) = if ratio > 0 {
            let other = base.saturating_mul(ratio).min(10u128.pow(32));
            if rng.gen_bool(0.5) { (base, other) } else { (other, base) }
        } else {
            (base, log_uniform(&mut rng, 1_000, 10u128.pow(30)))
        };
        let offer: u128 = match rng.gen_range(0..6) {
            0 => rng.gen_range(1..10),
            1 => rng.gen_range(1..2_000),
            2 => 10u128.pow(rng.gen_range(0..12)),
            3 => ro / rng.gen_range(1..1000).max(1) + 1,
            _ => log_uniform(&mut rng, 1, ro.max(2)),
        };
        let fees = match rng.gen_range(0..3) {
            0 => pool_fee(0, 0, 0, &[]),
            1 => pool_fee(rng.gen_range(0..30), rng.gen_range(0..30), rng.gen_range(0..30), &[]),
            _ => pool_fee(rng.gen_range(0..500), rng.gen_range(0..500), rng.gen_range(0..500), &[rng.gen_range(0..250)]),
        };
        let info = PoolInfo {
            pool_identifier: "o.k".into(),
            asset_denoms: vec!["tok0".into(), "tok1".into()],
            lp_denom: "factory/x/o.k.LP".into(),
            asset_decimals: vec![18, 18],
            assets: vec![coin(ro, "tok0"), coin(ra, "tok1")],
            pool_type: PoolType::ConstantProduct,
            pool_fees: fees,
            status: PoolStatus::default(),
        };
        let off = cosmwasm_std::Coin { denom: "tok0".into(), amount: Uint128::new(offer) };
        let r = std::panic::catch_unwind(std::panic::AssertUnwindSafe(|| pool_manager::helpers::compute_swap(&info, &off, "tok1")));
        let comp = match r {
            Ok(Ok(c)) => c,
            _ => {
                rep.count("cp_k_kernel", "error_or_abort");
                continue;
            }
        };
        let gross = comp.return_amount.u128() + comp.swap_fee_amount.u128() + comp.protocol_fee_amount.u128() + comp.burn_fee_amount.u128() + comp.extra_fees_amount.u128();
        let max = (bi(ra) * bi(offer)).div_floor(&(bi(ro) + bi(offer)));
        let abs = hash_of(&((ro as f64).log10() as i32, (ra as f64).log10() as i32, (offer as f64).log10() as i32, ratio.min(11)));
        if bi(gross) <= max {
            rep.held("cp_k_kernel", abs, || json!({"reserves": [ro.to_string(), ra.to_string()], "offer": offer.to_string(), "gross_output": gross.to_string(), "largest_value_preserving_output": max.to_string()}));
        } else {
            rep.failed(
                "cp_k_kernel",
                None,
                format!("constant-product quote pays {gross} for {offer} into {ro}/{ra}: more than floor(ask x offer / (pool + offer)) = {max}, so x*y falls"),
                witness(json!({"reserves": [ro.to_string(), ra.to_string()], "offer": offer.to_string(), "gross_output": gross.to_string(), "max": max.to_string()})),
            );
        }
    }
    rep
}
