//! C13 — price protections are enforced and failed trades change nothing.

use cosmwasm_std::{coin, Coin, Decimal, Uint128};
use mantra_dex_std::pool_manager as pm;
use num_bigint::BigInt;
use num_integer::Integer;
use num_traits::{One, Zero};
use rand::rngs::StdRng;
use rand::seq::SliceRandom;
use rand::{Rng, SeedableRng};
use serde_json::json;

use crate::exact::{bi, pow10, SsState, Q};
use crate::ops::{witness, Monitor, Op, PoolView, Step};
use crate::poolev::{parse_events, timeline, PoolEv};
use crate::report::{hash_of, Reporter};
use crate::ssx::EXTRA;
use crate::world::{Outcome, World};
use crate::wpool::{create_pool_op, log_uniform, pool_fee, provide_op, swap_op};
use mantra_dex_std::pool_manager::PoolType;

pub struct C13 {
    rng: StdRng,
}

impl C13 {
    pub fn new(seed: u64) -> C13 {
        C13 {
            rng: StdRng::seed_from_u64(seed ^ 0xC13),
        }
    }
}

fn tol_eff(t: &Option<Decimal>) -> Q {
    let given = t.map(|d| d.atomics().u128()).unwrap_or(10u128.pow(16));
    Q::dec(given.min(5 * 10u128.pow(17)))
}

fn eps18() -> Q {
    Q::new(BigInt::from(2), pow10(18))
}

fn slippage_rejected(out: &Outcome) -> bool {
    out.err_msg().map(|m| m.contains("Slippage limit exceeded")).unwrap_or(false)
}

fn mag(x: u128) -> i32 {
    if x == 0 {
        -1
    } else {
        (x as f64).log10() as i32
    }
}

#[derive(Debug)]
enum Judge {
    /// the decision agrees with the predicate (or cannot be told apart from it)
    Ok,
    Boundary,
    AcceptedButOver(String),
    RejectedButWithin(String),
}

/// accepted <=> loss <= tol, judged outside the band delta
fn judge(accepted: bool, rejected_for_it: bool, loss: &Q, tol: &Q, delta: &Q, what: &str) -> Judge {
    let hi = tol.add(delta);
    let lo = tol.sub(delta);
    if loss.le(&hi) && loss.ge(&lo) {
        return Judge::Boundary;
    }
    if accepted && loss.gt(&hi) {
        return Judge::AcceptedButOver(format!("{what}: loss {:.9} > tolerance {:.9}", loss.to_f64(), tol.to_f64()));
    }
    if rejected_for_it && loss.lt(&lo) {
        return Judge::RejectedButWithin(format!("{what}: loss {:.9} < tolerance {:.9}", loss.to_f64(), tol.to_f64()));
    }
    Judge::Ok
}

/// loss of a constant-product trade against the pre-trade pool price
fn cp_loss(r_offer: u128, r_ask: u128, offer: u128, net: u128) -> (Q, Q) {
    let ideal = Q::new(bi(offer) * bi(r_ask), bi(r_offer));
    let loss = Q::int(1).sub(&Q::int(net).div(&ideal));
    // the contract floors the ideal amount and truncates the exchange rate to 18 places
    let delta = Q::new(bi(2) * pow10(18) + bi(offer), pow10(18)).div(&ideal).add(&eps18());
    (loss, delta)
}

/// the two readings of "pool price" on a stableswap pool; returns (loss_peg, loss_marginal_lo,
/// loss_marginal_hi, delta)
fn ss_losses(p: &PoolView, i: usize, j: usize, offer: u128, net: u128) -> Option<(Q, Q, Q, Q)> {
    let amp = p.amp()?;
    let decs = &p.info.asset_decimals;
    let res = p.canon_reserves();
    let st = SsState::new(amp, &res, decs, EXTRA);
    let d0 = st.d_floor();
    let offer_n = bi(offer) * &st.unit[i];
    let net_n = bi(net) * &st.unit[j];
    let loss_peg = Q::int(1).sub(&Q::new(net_n.clone(), offer_n.clone()));
    // marginal price bounds by the secant slopes on either side of the pre-trade point
    let eps = (offer / 10_000).max(1);
    let (o_lo, _o_hi) = st.out_bounds(i, j, &bi(eps), &d0);
    // slope below the true marginal price
    let ideal_lo = Q::new(o_lo.max(BigInt::zero()) * bi(offer), bi(eps));
    // slope above it: go backwards by eps (if the reserve allows)
    let ideal_hi = if res[i] > eps {
        let mut xs = st.xs.clone();
        xs[i] -= bi(eps) * &st.unit[i];
        let y_up = st.curve.y_ceil(&xs, j, &(&d0 + BigInt::one()), &st.xs[j]);
        Q::new((&y_up - &st.xs[j] + BigInt::one()) * bi(offer), bi(eps))
    } else {
        Q::new(offer_n.clone() * bi(1000), BigInt::one())
    };
    if ideal_lo.n.is_zero() {
        return None;
    }
    let netq = Q::new(net_n.clone(), BigInt::one());
    let loss_lo = Q::int(1).sub(&netq.div(&ideal_lo)); // under-estimate
    let loss_hi = Q::int(1).sub(&netq.div(&ideal_hi)); // over-estimate
    let delta = Q::new(bi(4) * &st.unit[j] + bi(4) * &st.unit[i], offer_n).add(&eps18());
    Some((loss_peg, loss_lo, loss_hi, delta))
}


/// constant-product deposit with a tolerance: accepted <=> both deposit ratios, reduced by the
/// tolerance, are within the PRE-deposit pool ratios (judged outside the fixed-point band)
fn judge_cp_deposit(p: &PoolView, d0: u128, d1: u128, tol: &Decimal, accepted: bool, via: &str, rep: &mut Reporter) {
    let pool = &p.info.pool_identifier;
    let r = p.canon_reserves();
    let one_minus = Q::int(1).sub(&Q::dec(tol.atomics().u128()));
    let a = Q::ratio(d0, d1).mul(&one_minus);
    let b = Q::ratio(d1, d0).mul(&one_minus);
    let pa = Q::ratio(r[0], r[1]);
    let pb = Q::ratio(r[1], r[0]);
    let e = Q::new(BigInt::from(3), pow10(18)).add(&Q::new(BigInt::from(3), pow10(18)).mul(&one_minus));
    let within = a.le(&pa.add(&e)) && b.le(&pb.add(&e));
    let outside = a.gt(&pa.sub(&e)) || b.gt(&pb.sub(&e));
    // undecidable only when no direction is clearly over and at least one lies inside the rounding band
    let boundary = within && outside;
    let rel = (d0 as f64 / r[0].max(1) as f64).log10().round() as i32;
    let abs = hash_of(&(via, pool, accepted, tol.atomics().u128() / 10u128.pow(16), rel, mag(d1)));
    if boundary {
        rep.boundary("deposit_tol_cp");
    } else if accepted && !within {
        rep.failed("deposit_tol_cp", None, format!("pool {pool} ({via}): deposit {d0}/{d1} vs pool {}/{} accepted outside tolerance {tol}", r[0], r[1]), witness(json!({"pool": pool, "deposit": [d0.to_string(), d1.to_string()], "reserves": [r[0].to_string(), r[1].to_string()], "tolerance": tol.to_string()})));
    } else if !accepted && !outside {
        rep.failed("deposit_tol_cp", None, format!("pool {pool} ({via}): deposit {d0}/{d1} vs pool {}/{} refused although within tolerance {tol}", r[0], r[1]), witness(json!({"pool": pool, "deposit": [d0.to_string(), d1.to_string()], "reserves": [r[0].to_string(), r[1].to_string()], "tolerance": tol.to_string()})));
    } else {
        rep.held("deposit_tol_cp", abs, || json!({"via": via, "pool": pool, "deposit": [d0.to_string(), d1.to_string()], "reserves": [r[0].to_string(), r[1].to_string()], "tolerance": tol.to_string(), "accepted": accepted}));
    }
}

impl C13 {
    fn judge_direct_swap(&mut self, w: &mut World, s: &Step, rep: &mut Reporter) {
        let (sender, msg, funds) = match s.op {
            Op::Pm { sender, msg, funds } => (sender, msg, funds),
            _ => return,
        };
        let (ask, belief, max_slip, pool) = match msg {
            pm::ExecuteMsg::Swap { ask_asset_denom, belief_price, max_slippage, pool_identifier, .. } => {
                (ask_asset_denom, belief_price, max_slippage, pool_identifier)
            }
            _ => return,
        };
        if funds.len() != 1 {
            return;
        }
        let p = match s.pre.pools.get(pool) {
            Some(p) => p,
            None => return,
        };
        let offer = &funds[0];
        let (i, j) = match (p.canon_index(&offer.denom), p.canon_index(ask)) {
            (Some(i), Some(j)) if i != j => (i, j),
            _ => return,
        };
        if !p.funded() || !p.info.status.swaps_enabled || offer.amount.is_zero() {
            return;
        }
        let accepted = s.out.is_ok();
        let rejected_for_it = slippage_rejected(s.out);
        if !accepted && !rejected_for_it {
            rep.count("swap_limit", "rejected_for_unrelated_reason");
            if let Some(b) = belief {
                if b.is_zero() {
                    rep.held("belief_price", hash_of(&("zero", pool)), || json!({"pool": pool, "belief_price": "0", "result": s.out.short()}));
                }
            }
            return;
        }
        // what the trade returns (executed, or quoted in the pre-state when it was refused)
        let net = if accepted {
            match parse_events(s.out, &w.pm).ok().and_then(|e| e.into_iter().find_map(|x| if let PoolEv::Swap(sw) = x { Some(sw.return_amount) } else { None })) {
                Some(n) => n,
                None => return,
            }
        } else {
            let post = w.snapshot();
            w.restore(s.pre_snap);
            let q: Result<pm::SimulationResponse, String> = w.query(
                &w.pm,
                &pm::QueryMsg::Simulation {
                    offer_asset: offer.clone(),
                    ask_asset_denom: ask.clone(),
                    pool_identifier: pool.clone(),
                },
            );
            w.restore(&post);
            match q {
                Ok(q) => q.return_amount.u128(),
                Err(_) => return,
            }
        };
        let _ = sender;
        let tol = tol_eff(max_slip);
        let off = offer.amount.u128();
        let res = p.canon_reserves();
        let wit = |extra: serde_json::Value| {
            witness(json!({"pool": pool, "type": if p.is_cp() {"constant_product"} else {"stableswap"}, "decimals": p.info.asset_decimals,
                "reserves": res.iter().map(|r| r.to_string()).collect::<Vec<_>>(), "offer": offer.to_string(), "ask": ask, "net_return": net.to_string(),
                "max_slippage": max_slip.map(|d| d.to_string()), "belief_price": belief.map(|d| d.to_string()), "accepted": accepted, "detail": extra}))
        };
        if let Some(b) = belief {
            if b.is_zero() {
                if accepted {
                    rep.failed("belief_price", None, "a swap with belief price 0 was executed".into(), wit(json!({})));
                }
                return;
            }
            // expected = floor(offer / belief); accepted <=> net >= expected or (expected-net)/expected <= tol
            let e = Q::new(bi(off) * pow10(18), bi(b.atomics().u128()));
            let ef = e.floor();
            if ef.is_zero() {
                rep.count("belief_price", "expected_return_zero_not_judged");
                return;
            }
            let efq = Q::new(ef.clone(), BigInt::one());
            let loss = Q::int(1).sub(&Q::int(net).div(&efq));
            let delta = Q::new(bi(2) * pow10(18) + bi(off), pow10(18)).div(&efq).add(&eps18());
            let abs = hash_of(&("belief", pool, i, mag(off), accepted));
            match judge(accepted, rejected_for_it, &loss, &tol, &delta, "belief price") {
                Judge::Ok => rep.held("belief_price", abs, || json!({"pool": pool, "offer": offer.to_string(), "belief": b.to_string(), "net": net.to_string(), "loss_vs_belief": loss.to_f64(), "tolerance": tol.to_f64(), "accepted": accepted})),
                Judge::Boundary => rep.boundary("belief_price"),
                Judge::AcceptedButOver(m) | Judge::RejectedButWithin(m) => rep.failed("belief_price", None, format!("pool {pool}: {m}"), wit(json!({}))),
            }
            return;
        }
        if p.is_cp() {
            let (loss, delta) = cp_loss(res[i], res[j], off, net);
            let abs = hash_of(&("cp", pool, i, mag(off), accepted, max_slip.map(|d| d.atomics().u128())));
            // where the base-unit price lies below 1e-18 the contract's 18-digit exchange rate is
            // zero and the band above exceeds 100%: the price cannot be measured at all there (the
            // contract then refuses every such trade). An *accepted* trade that loses more than
            // tolerance + 50% is over the limit whatever the measurement error
            if accepted && delta.gt(&Q::int(1)) && loss.gt(&tol.add(&Q::new(BigInt::one(), bi(2)))) {
                rep.failed("swap_limit_cp", None, format!("pool {pool}: executed with a loss of {:.6} against the pool price under a tolerance of {:.6} (base-unit price below 1e-18, where the exchange rate cannot be represented)", loss.to_f64(), tol.to_f64()), wit(json!({})));
                return;
            }
            match judge(accepted, rejected_for_it, &loss, &tol, &delta, "price impact + fees vs pool price") {
                Judge::Ok => rep.held("swap_limit_cp", abs, || json!({"pool": pool, "offer": offer.to_string(), "net": net.to_string(), "loss": loss.to_f64(), "tolerance": tol.to_f64(), "accepted": accepted})),
                Judge::Boundary => rep.boundary("swap_limit_cp"),
                Judge::AcceptedButOver(m) | Judge::RejectedButWithin(m) => rep.failed("swap_limit_cp", None, format!("pool {pool}: {m}"), wit(json!({}))),
            }
        } else {
            let (peg, lo, hi, delta) = match ss_losses(p, i, j, off, net) {
                Some(x) => x,
                None => {
                    rep.count("swap_limit_ss", "no_marginal_price_not_judged");
                    return;
                }
            };
            let mixed = p.info.asset_decimals.get(i) != p.info.asset_decimals.get(j);
            let abs = hash_of(&("ss", pool, i, j, mag(off), accepted, max_slip.map(|d| d.atomics().u128())));
            // whatever "pool price" means, the price impact of a trade is not negative: a trade
            // whose fees alone exceed the tolerance is over the limit (each fee is floored, hence
            // the allowance of one unit per fee)
            if accepted && net > 0 {
                let f = &p.info.pool_fees;
                let shares: Vec<u128> = [f.protocol_fee.share, f.swap_fee.share, f.burn_fee.share].iter().chain(f.extra_fees.iter().map(|e| &e.share)).map(|d| d.atomics().u128()).collect();
                let total = Q::dec(shares.iter().sum::<u128>());
                if total.lt(&Q::int(1)) {
                    let gross = Q::int(net).div(&Q::int(1).sub(&total));
                    let allowance = Q::int(shares.len() as u128 + 1).div(&gross);
                    let fee_part = total.sub(&allowance);
                    if fee_part.gt(&tol.add(&eps18())) {
                        rep.failed("swap_limit_ss", None, format!("pool {pool}: executed under a tolerance of {:.6} although the pool's fees alone take {:.6} of the proceeds", tol.to_f64(), total.to_f64()),
                            wit(json!({"fee_share": total.to_f64(), "tolerance": tol.to_f64()})));
                        return;
                    }
                }
            }
            // flagged only when the decision contradicts both readings of "pool price"
            let j_peg = judge(accepted, rejected_for_it, &peg, &tol, &delta, "loss vs peg");
            let j_mar = if accepted {
                judge(accepted, rejected_for_it, &lo, &tol, &delta, "loss vs marginal price")
            } else {
                judge(accepted, rejected_for_it, &hi, &tol, &delta, "loss vs marginal price")
            };
            let bad = |j: &Judge| matches!(j, Judge::AcceptedButOver(_) | Judge::RejectedButWithin(_));
            // a refused trade whose quote beats the pre-trade marginal price and the peg (a negative
            // loss under both readings, even at the over-estimate): the trader would have received
            // more than the pool price gives, fees included - dust pools where the pricing kernel
            // is off its invariant (C19's subject) or offers of a unit or two. The statement binds
            // executions ("executes only if"); refusing such a trade contradicts nothing it says
            let zero = Q::int(0);
            if !accepted && hi.lt(&zero) && peg.lt(&zero) {
                rep.count("swap_limit_ss", "refused_although_quote_beats_the_marginal_price_(kernel_off_invariant,_see_C19)");
                return;
            }
            if bad(&j_peg) && bad(&j_mar) {
                let kf = if mixed { Some("KF-C13-a") } else { None };
                rep.failed(
                    "swap_limit_ss",
                    kf,
                    format!("pool {pool} ({:?} decimals): decision contradicts both readings: {:?} / {:?}", p.info.asset_decimals, j_peg, j_mar),
                    wit(json!({"loss_vs_peg": peg.to_f64(), "loss_vs_marginal": [lo.to_f64(), hi.to_f64()], "tolerance": tol.to_f64()})),
                );
            } else if matches!(j_peg, Judge::Boundary) || matches!(j_mar, Judge::Boundary) {
                rep.boundary("swap_limit_ss");
            } else {
                rep.held("swap_limit_ss", abs, || json!({"pool": pool, "decimals": p.info.asset_decimals, "offer": offer.to_string(), "net": net.to_string(), "loss_vs_peg": peg.to_f64(), "loss_vs_marginal": [lo.to_f64(), hi.to_f64()], "tolerance": tol.to_f64(), "accepted": accepted}));
            }
        }
    }

    fn judge_route(&mut self, w: &mut World, s: &Step, rep: &mut Reporter) {
        let (msg, funds) = match s.op {
            Op::Pm { msg, funds, .. } => (msg, funds),
            _ => return,
        };
        let (operations, minimum_receive, max_slip) = match msg {
            pm::ExecuteMsg::ExecuteSwapOperations { operations, minimum_receive, max_slippage, .. } => (operations, minimum_receive, max_slippage),
            _ => return,
        };
        if funds.len() != 1 || operations.is_empty() {
            return;
        }
        if s.out.is_ok() {
            let evs = parse_events(s.out, &w.pm).unwrap_or_default();
            // what the receiver ends up with (the route summary event is only a cross-check)
            let (sender_addr, recv_opt) = match s.op {
                Op::Pm { sender, msg: pm::ExecuteMsg::ExecuteSwapOperations { receiver, .. }, .. } => (sender.clone(), receiver.clone()),
                _ => return,
            };
            // an unparsable receiver falls back to the sender (helper validate_addr_or_default)
            let recv = cosmwasm_std::Addr::unchecked(crate::props::c04::resolve_receiver(w, &recv_opt, &sender_addr));
            let pm::SwapOperation::MantraSwap { token_out_denom, .. } = operations.last().unwrap();
            let delta_of = |pre: u128, post: u128| -> Option<u128> {
                let paid_in = if recv == sender_addr && &funds[0].denom == token_out_denom { funds[0].amount.u128() } else { 0 };
                (post + paid_in).checked_sub(pre)
            };
            let by_balance = delta_of(s.pre.bal(&recv, token_out_denom), s.post.bal(&recv, token_out_denom));
            let by_event = evs.iter().find_map(|e| if let PoolEv::RouteSummary { return_amount, .. } = e { Some(*return_amount) } else { None });
            // receivers the harness does not track (the fee collector gets protocol fees too): fall back to the event
            let tracked = recv != w.fc && recv != w.fc2 && recv != w.pm;
            let delivered = if tracked { by_balance } else { by_event };
            if let (Some(min), Some(d)) = (minimum_receive, delivered) {
                if d >= min.u128() {
                    rep.held("minimum_receive", hash_of(&("ok", operations.len(), mag(min.u128()))), || json!({"hops": operations.len(), "minimum_receive": min.to_string(), "delivered": d.to_string()}));
                } else {
                    rep.failed("minimum_receive", None, format!("route delivered {d} < minimum_receive {min}"), witness(json!({"operations": operations})));
                }
            }
            // forked: the same route with minimum_receive set to exactly what it delivers must
            // execute, and with one unit more must fail as a whole (whatever the route's shape)
            if let Some(d) = delivered {
                let post = w.snapshot();
                for (bump, want_ok) in [(0u128, true), (1u128, false)] {
                    w.restore(s.pre_snap);
                    let mut op = s.op.clone();
                    if let Op::Pm { msg: pm::ExecuteMsg::ExecuteSwapOperations { minimum_receive, .. }, .. } = &mut op {
                        *minimum_receive = Some(cosmwasm_std::Uint128::new(d + bump));
                    }
                    let out = w.apply(&op);
                    let mut seen: Vec<String> = vec![];
                    let revisits = operations.iter().any(|o| {
                        let id = o.get_pool_identifer();
                        let r = seen.contains(&id);
                        seen.push(id);
                        r
                    });
                    let abs = hash_of(&("exact", operations.len(), revisits, want_ok, mag(d)));
                    if want_ok {
                        let d2 = if tracked { delta_of(s.pre.bal(&recv, token_out_denom), w.balance(&recv, token_out_denom)) } else { parse_events(&out, &w.pm).unwrap_or_default().iter().find_map(|e| if let PoolEv::RouteSummary { return_amount, .. } = e { Some(*return_amount) } else { None }) };
                        if out.is_ok() && d2 == Some(d) {
                            rep.held("minimum_receive", abs, || json!({"hops": operations.len(), "revisits_a_pool": revisits, "delivers": d.to_string(), "minimum_receive": d.to_string(), "result": "executed"}));
                        } else {
                            rep.failed("minimum_receive", None, format!("route delivering {d} is refused (or delivers {d2:?}) when minimum_receive is exactly {d}: {}", out.short()), witness(json!({"operations": operations, "delivers": d.to_string()})));
                        }
                    } else if out.is_ok() {
                        rep.failed("minimum_receive", None, format!("route delivering {d} executed although minimum_receive was {}", d + 1), witness(json!({"operations": operations, "delivers": d.to_string(), "minimum_receive": (d + 1).to_string()})));
                    } else if *w.state() != s.pre_snap.storage {
                        rep.failed("minimum_receive", None, "route refused for minimum_receive left changes behind".to_string(), witness(json!({"operations": operations})));
                    } else {
                        rep.held("minimum_receive", abs, || json!({"hops": operations.len(), "revisits_a_pool": revisits, "delivers": d.to_string(), "minimum_receive": (d + 1).to_string(), "result": "refused as a whole, nothing changed"}));
                    }
                }
                w.restore(&post);
            }
            // every executed constant-product hop respected the per-hop limit
            if let Ok(tl) = timeline(s.pre, s.post, &evs) {
                let tol = tol_eff(max_slip);
                for t in &tl {
                    if let PoolEv::Swap(sw) = &t.ev {
                        if let Some(p) = s.pre.pools.get(&t.pool) {
                            if p.is_cp() {
                                let b = p.canon(&t.before);
                                let (i, j) = (p.canon_index(&sw.offer_denom).unwrap(), p.canon_index(&sw.ask_denom).unwrap());
                                let (loss, delta) = cp_loss(b[i], b[j], sw.offer_amount, sw.return_amount);
                                match judge(true, false, &loss, &tol, &delta, "routed hop") {
                                    Judge::AcceptedButOver(m) => rep.failed("swap_limit_cp", None, format!("pool {}: {m}", t.pool), witness(json!({"hop": format!("{sw:?}")}))),
                                    Judge::Boundary => rep.boundary("swap_limit_cp"),
                                    _ => rep.held("swap_limit_cp", hash_of(&("hop", &t.pool, i, mag(sw.offer_amount))), || json!({"routed_hop": t.pool, "loss": loss.to_f64(), "tolerance": tol.to_f64()})),
                                }
                            }
                        }
                    }
                }
            }
        } else if s.out.err_msg().map(|m| m.contains("minimum receive amount")).unwrap_or(false) {
            // refused for this reason: the quote must really be below the minimum (simple routes)
            let mut seen = vec![];
            let simple = operations.iter().all(|o| {
                let id = o.get_pool_identifer();
                if seen.contains(&id) {
                    false
                } else {
                    seen.push(id);
                    true
                }
            });
            if let (true, Some(min)) = (simple, minimum_receive) {
                let post = w.snapshot();
                w.restore(s.pre_snap);
                let q: Result<pm::SimulateSwapOperationsResponse, String> = w.query(
                    &w.pm,
                    &pm::QueryMsg::SimulateSwapOperations {
                        offer_amount: funds[0].amount,
                        operations: operations.clone(),
                    },
                );
                w.restore(&post);
                if let Ok(q) = q {
                    if q.return_amount < *min {
                        rep.held("minimum_receive", hash_of(&("rej", operations.len(), mag(min.u128()))), || json!({"hops": operations.len(), "minimum_receive": min.to_string(), "quote": q.return_amount.to_string(), "result": "refused as a whole"}));
                    } else {
                        rep.failed("minimum_receive", None, format!("route refused for minimum_receive {min} although it would deliver {}", q.return_amount), witness(json!({"operations": operations})));
                    }
                }
            }
        }
    }

    fn judge_deposit(&mut self, _w: &mut World, s: &Step, rep: &mut Reporter) {
        let (msg, funds) = match s.op {
            Op::Pm { msg, funds, .. } => (msg, funds),
            _ => return,
        };
        let (tol, pool) = match msg {
            pm::ExecuteMsg::ProvideLiquidity { liquidity_max_slippage: Some(t), pool_identifier, .. } => (t, pool_identifier),
            _ => return,
        };
        let p = match s.pre.pools.get(pool) {
            Some(p) => p,
            None => return,
        };
        if !p.funded() || !p.is_cp() || funds.len() != 2 || !p.info.status.deposits_enabled {
            return;
        }
        let (d0, d1) = match (funds.iter().find(|c| c.denom == p.info.asset_denoms[0]), funds.iter().find(|c| c.denom == p.info.asset_denoms[1])) {
            (Some(a), Some(b)) if !a.amount.is_zero() && !b.amount.is_zero() => (a.amount.u128(), b.amount.u128()),
            _ => return,
        };
        let accepted = s.out.is_ok();
        let msgtxt = s.out.err_msg().unwrap_or("");
        if *tol > Decimal::one() {
            if accepted {
                rep.failed("deposit_tol_cp", None, format!("deposit with slippage tolerance {tol} > 1 accepted"), witness(json!({"pool": pool})));
            } else {
                rep.held("deposit_tol_cp", hash_of(&("gt1", pool)), || json!({"pool": pool, "tolerance": tol.to_string(), "result": s.out.short()}));
            }
            return;
        }
        let rejected_for_it = msgtxt.contains("Slippage tolerance exceeded") || msgtxt.contains("MaxSlippageAssertion");
        if !accepted && !rejected_for_it {
            return;
        }
        judge_cp_deposit(p, d0, d1, tol, accepted, "workload", rep);
    }

    /// forked probes: exact-proportion deposits under any tolerance; monotonicity in the tolerance
    fn probes(&mut self, w: &mut World, s: &Step, rep: &mut Reporter) {
        let pools: Vec<&PoolView> = s.post.pools.values().filter(|p| p.funded() && p.info.status.deposits_enabled && p.info.status.swaps_enabled).collect();
        let p = match pools.choose(&mut self.rng) {
            Some(p) => *p,
            None => return,
        };
        let snap = w.snapshot();
        let user = w.users[self.rng.gen_range(0..w.users.len())].clone();
        let pid = p.info.pool_identifier.clone();
        // --- exact-proportion deposit
        {
            let res = p.reserves();
            let g = res.iter().fold(0u128, |a, b| a.gcd(b)).max(1);
            let unit: Vec<u128> = res.iter().map(|r| r / g).collect();
            let maxu = *unit.iter().max().unwrap();
            if maxu < 10u128.pow(30) {
                let kmax = (10u128.pow(32) / maxu).max(1);
                let k = log_uniform(&mut self.rng, 1, kmax.min(g.max(1) * 4));
                let funds: Vec<Coin> = p.info.assets.iter().zip(unit.iter()).map(|(c, u)| coin(u * k, c.denom.clone())).collect();
                let tol = *[Decimal::zero(), Decimal::permille(1), Decimal::percent(10), Decimal::percent(50), Decimal::one()].choose(&mut self.rng).unwrap();
                // reference: the same deposit without any tolerance
                let plain = w.apply(&provide_op(&user, &pid, funds.clone(), None, None, None, None, None));
                w.restore(&snap);
                if plain.is_ok() {
                    let out = w.apply(&provide_op(&user, &pid, funds.clone(), Some(tol), None, None, None, None));
                    w.restore(&snap);
                    let clause = if p.is_cp() { "deposit_tol_cp_proportional" } else { "deposit_tol_ss" };
                    let abs = hash_of(&(&pid, tol.atomics().u128(), mag(k)));
                    if out.is_ok() {
                        rep.held(clause, abs, || json!({"pool": pid, "deposit": funds.iter().map(|c| c.to_string()).collect::<Vec<_>>(), "tolerance": tol.to_string(), "result": "accepted"}));
                    } else {
                        let kf = if !p.is_cp() { Some("KF-C13-b") } else { None };
                        rep.failed(
                            clause,
                            kf,
                            format!("pool {pid}: deposit in exact pool proportion refused under tolerance {tol}: {}", out.short()),
                            witness(json!({"pool": pid, "reserves": res.iter().map(|r| r.to_string()).collect::<Vec<_>>(), "deposit": funds.iter().map(|c| c.to_string()).collect::<Vec<_>>(), "tolerance": tol.to_string()})),
                        );
                    }
                    // tolerance above 1 must be refused
                    let out = w.apply(&provide_op(&user, &pid, funds.clone(), Some(Decimal::percent(100 + self.rng.gen_range(1..200))), None, None, None, None));
                    w.restore(&snap);
                    if out.is_ok() {
                        rep.failed("deposit_tol_gt1", None, format!("pool {pid}: deposit with tolerance > 1 accepted"), witness(json!({"pool": pid})));
                    } else {
                        rep.held("deposit_tol_gt1", hash_of(&(&pid, p.is_cp())), || json!({"pool": pid, "result": out.short()}));
                    }
                }
            }
        }
        // --- monotone: swap accepted at t1 => accepted at t2 > t1
        {
            let n = p.info.assets.len();
            let i = self.rng.gen_range(0..n);
            let j = (i + 1 + self.rng.gen_range(0..n - 1)) % n;
            let r = p.info.assets[i].amount.u128();
            let amt = log_uniform(&mut self.rng, (r / 1_000_000).max(1), r.max(2));
            let mut ts: Vec<u64> = (0..4).map(|_| self.rng.gen_range(0..=5000u64)).collect();
            ts.sort();
            ts.dedup();
            let mut prev_ok: Option<u64> = None;
            let mut all = vec![];
            for t in &ts {
                let out = w.apply(&swap_op(&user, &pid, coin(amt, p.info.assets[i].denom.clone()), &p.info.assets[j].denom, None, Some(Decimal::from_ratio(*t, 10_000u64)), None));
                w.restore(&snap);
                let ok = out.is_ok();
                let slip = slippage_rejected(&out);
                all.push((*t, ok));
                if let Some(t1) = prev_ok {
                    if !ok && slip {
                        rep.failed("monotone", None, format!("pool {pid}: swap of {amt} accepted at max_slippage {t1}bp but refused at {t}bp"), witness(json!({"pool": pid, "offer": amt.to_string(), "decisions": all})));
                    }
                }
                if ok {
                    prev_ok = Some(*t);
                }
            }
            rep.held("monotone", hash_of(&(&pid, i, j, mag(amt), all.iter().map(|a| a.1).collect::<Vec<_>>())), || json!({"pool": pid, "offer": amt.to_string(), "tolerance_bp_and_decision": all}));
        }
        // --- large off-ratio deposits on constant-product pools (the size of the deposit relative
        // to the pool must not matter: the reference is the pool ratio BEFORE the deposit)
        if p.is_cp() {
            let r = p.canon_reserves();
            if r[0] < 10u128.pow(30) && r[1] < 10u128.pow(30) {
                for _ in 0..3 {
                    let k = self.rng.gen_range(100u128..4000); // 0.1x .. 4x the pool, in permille
                    let f = self.rng.gen_range(300u128..3000); // skew of the second asset, in permille
                    let d0 = (r[0] / 1000 * k).max(1);
                    let d1 = (r[1] / 1000 * k / 1000 * f).max(1);
                    let tol = Decimal::permille(self.rng.gen_range(0..=1000));
                    let funds = vec![coin(d0, p.info.asset_denoms[0].clone()), coin(d1, p.info.asset_denoms[1].clone())];
                    let out = w.apply(&provide_op(&user, &pid, funds, Some(tol), None, None, None, None));
                    w.restore(&snap);
                    let m = out.err_msg().unwrap_or("");
                    if out.is_ok() || m.contains("Slippage tolerance exceeded") {
                        judge_cp_deposit(p, d0, d1, &tol, out.is_ok(), "forked large deposit", rep);
                    }
                }
            }
        }
        // --- monotone for constant-product deposits
        if p.is_cp() {
            let r = p.reserves();
            let f = self.rng.gen_range(700_000..1_400_000u128);
            let base = log_uniform(&mut self.rng, 1000, 10u128.pow(12));
            let d0 = (r[0] / 1_000_000).max(1).saturating_mul(base) / 1000 + 1;
            let d1 = ((r[1] / 1_000_000).max(1).saturating_mul(base) / 1000 + 1).saturating_mul(f) / 1_000_000 + 1;
            let funds = vec![coin(d0, p.info.assets[0].denom.clone()), coin(d1, p.info.assets[1].denom.clone())];
            let mut ts: Vec<u64> = (0..4).map(|_| self.rng.gen_range(0..=10_000u64)).collect();
            ts.sort();
            ts.dedup();
            let mut prev_ok: Option<u64> = None;
            let mut all = vec![];
            for t in &ts {
                let out = w.apply(&provide_op(&user, &pid, funds.clone(), Some(Decimal::from_ratio(*t, 10_000u64)), None, None, None, None));
                w.restore(&snap);
                let ok = out.is_ok();
                let slip = out.err_msg().map(|m| m.contains("Slippage tolerance exceeded")).unwrap_or(false);
                all.push((*t, ok));
                if let Some(t1) = prev_ok {
                    if !ok && slip {
                        rep.failed("monotone", None, format!("pool {pid}: deposit accepted at tolerance {t1}bp but refused at {t}bp"), witness(json!({"pool": pid, "decisions": all})));
                    }
                }
                if ok {
                    prev_ok = Some(*t);
                }
            }
            rep.held("monotone", hash_of(&("dep", &pid, all.iter().map(|a| a.1).collect::<Vec<_>>())), || json!({"pool": pid, "deposit": funds.iter().map(|c| c.to_string()).collect::<Vec<_>>(), "tolerance_bp_and_decision": all}));
        }
        w.restore(&snap);
        let _ = Uint128::zero();
    }

    /// forked probe: a fresh constant-product pool whose base-unit ratio is far from 1, in either
    /// denom order (the scarce asset sorting first or last); off-ratio deposits in both directions
    /// under a tolerance are judged by the ordinary deposit clause
    fn lopsided_deposit_probe(&mut self, w: &mut World, s: &Step, rep: &mut Reporter) {
        let snap = w.snapshot();
        let user = w.users[self.rng.gen_range(0..w.users.len())].clone();
        let (denoms, scarce_first): ([&str; 2], bool) = *[(["uusdc", "ux12"], true), (["uom", "ux12"], true), (["ueth", "uusdt"], false), (["udai", "uwbtc"], false)].choose(&mut self.rng).unwrap();
        let id = format!("lopd{}", s.idx);
        let out = w.apply(&create_pool_op(w, &user, &denoms, PoolType::ConstantProduct, pool_fee(0, 30, 0, &[]), Some(&id)));
        if !out.is_ok() {
            rep.count("deposit_tol_cp", "lopsided_pool_not_created");
            w.restore(&snap);
            return;
        }
        let pid = format!("o.{id}");
        let scarce = log_uniform(&mut self.rng, 10u128.pow(9), 10u128.pow(13));
        let abundant = log_uniform(&mut self.rng, 10u128.pow(27), 10u128.pow(30));
        let (r0, r1) = if scarce_first { (scarce, abundant) } else { (abundant, scarce) };
        let seed_out = w.apply(&provide_op(&user, &pid, vec![coin(r0, denoms[0]), coin(r1, denoms[1])], None, None, None, None, None));
        if !seed_out.is_ok() {
            rep.count("deposit_tol_cp", "lopsided_pool_not_seeded");
            w.restore(&snap);
            return;
        }
        let funded = w.snapshot();
        let obs = crate::ops::observe(w);
        if let Some(p) = obs.pools.get(&pid) {
            let r = p.canon_reserves();
            for _ in 0..6 {
                let k = self.rng.gen_range(10u128..2000); // 0.01x .. 2x the pool, in permille
                let f = self.rng.gen_range(300u128..3000); // skew of the second asset, in permille
                let d0 = (r[0] / 1000 * k).max(1);
                let d1 = (r[1] / 1000 * k / 1000 * f).max(1);
                let tol = *[Decimal::permille(1), Decimal::percent(1), Decimal::percent(10), Decimal::percent(30), Decimal::permille(self.rng.gen_range(0..=1000))].choose(&mut self.rng).unwrap();
                let funds = vec![coin(d0, p.info.asset_denoms[0].clone()), coin(d1, p.info.asset_denoms[1].clone())];
                let out = w.apply(&provide_op(&user, &pid, funds, Some(tol), None, None, None, None));
                w.restore(&funded);
                let m = out.err_msg().unwrap_or("");
                if out.is_ok() || m.contains("Slippage tolerance exceeded") {
                    judge_cp_deposit(p, d0, d1, &tol, out.is_ok(), if scarce_first { "forked lopsided pool, scarce asset first" } else { "forked lopsided pool, scarce asset last" }, rep);
                } else {
                    rep.count("deposit_tol_cp", "lopsided_deposit_failed_for_another_reason");
                }
            }
        }
        w.restore(&snap);
    }
}

impl Monitor for C13 {
    fn step(&mut self, w: &mut World, s: &Step, rep: &mut Reporter) {
        // failed trades change nothing
        if let Op::Pm { msg, .. } = s.op {
            if matches!(msg, pm::ExecuteMsg::Swap { .. } | pm::ExecuteMsg::ExecuteSwapOperations { .. } | pm::ExecuteMsg::ProvideLiquidity { .. }) && !s.out.is_ok() {
                if s.pre_snap.storage == *w.state() {
                    rep.held("reject_is_noop", hash_of(&(s.op.kind(), crate::ops::err_class(s.out.err_msg().unwrap_or("")))), || json!({"op": s.op.kind(), "result": s.out.short()}));
                } else {
                    rep.failed("reject_is_noop", None, format!("rejected {} changed the chain state", s.op.kind()), witness(json!({"result": s.out.short()})));
                }
            }
        }
        self.judge_direct_swap(w, s, rep);
        self.judge_route(w, s, rep);
        self.judge_deposit(w, s, rep);
        if s.idx % 4 == 0 {
            self.probes(w, s, rep);
        }
        if s.idx % 25 == 7 {
            self.lopsided_deposit_probe(w, s, rep);
        }
    }
}
