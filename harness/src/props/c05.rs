//! C05 — the farm manager always holds every locked LP token and every unclaimed reward.

use std::collections::BTreeMap;

use mantra_dex_std::farm_manager::{FarmAction, PositionAction};
use rand::rngs::StdRng;
use rand::seq::SliceRandom;
use rand::{Rng, SeedableRng};
use serde_json::json;

use crate::ops::{witness, Monitor, Op, Step};
use crate::report::{hash_of, Reporter};
use crate::wfarm::{farm_op, fobserve, pos_op, FObs};
use crate::world::World;

pub struct C05 {
    rng: StdRng,
    pub drain_every: usize,
    donations: BTreeMap<String, u128>,
}

impl C05 {
    pub fn new(seed: u64) -> C05 {
        C05 {
            rng: StdRng::seed_from_u64(seed ^ 0xC05),
            drain_every: 60,
            donations: BTreeMap::new(),
        }
    }
}

pub fn needed(f: &FObs) -> BTreeMap<String, u128> {
    let mut need: BTreeMap<String, u128> = BTreeMap::new();
    for p in f.positions.values() {
        *need.entry(p.lp_asset.denom.clone()).or_default() += p.lp_asset.amount.u128();
    }
    for fa in f.farms.values() {
        *need.entry(fa.farm_asset.denom.clone()).or_default() += fa.farm_asset.amount.u128().saturating_sub(fa.claimed_amount.u128());
    }
    need
}

impl C05 {
    /// "hence every position can be withdrawn in full and every farm's remainder refunded at any
    /// time, in any order": do exactly that on a fork.
    fn drain(&mut self, w: &mut World, f: &FObs, rep: &mut Reporter) {
        if f.positions.is_empty() && f.farms.is_empty() {
            return;
        }
        let snap = w.snapshot();
        // one drain in three happens after the owner has pointed the farm manager at another pool
        // manager (a legitimate configuration change): everything must still be withdrawable
        let repointed = self.rng.gen_range(0..3) == 0;
        if repointed {
            let owner = w.owner.clone();
            let other = w.users[w.users.len() - 1].to_string();
            let _ = w.apply(&crate::wfarm::fm_config_op(&owner, |p| p.pool_manager_addr = Some(other.clone())));
        }
        enum Job {
            Farm(String),
            Pos(String),
        }
        let mut jobs: Vec<Job> = f.farms.keys().map(|k| Job::Farm(k.clone())).chain(f.positions.keys().map(|k| Job::Pos(k.clone()))).collect();
        jobs.shuffle(&mut self.rng);
        let mut done = 0;
        let mut failed: Vec<String> = vec![];
        for j in jobs {
            match j {
                Job::Farm(id) => {
                    // (claims made on the way out of positions above may have drawn on it meanwhile)
                    let farm = match fobserve(w).farms.get(&id) {
                        Some(x) => x.clone(),
                        None => continue,
                    };
                    let farm = &farm;
                    let remainder = farm.farm_asset.amount.u128().saturating_sub(farm.claimed_amount.u128());
                    let b0 = w.balance(&farm.owner, &farm.farm_asset.denom);
                    let out = w.apply(&farm_op(&farm.owner, FarmAction::Close { farm_identifier: id.clone() }, vec![]));
                    let b1 = w.balance(&farm.owner, &farm.farm_asset.denom);
                    if !out.is_ok() || b1 - b0 != remainder {
                        failed.push(format!("closing farm {id}: {} (owner received {} of remainder {remainder})", out.short(), b1 - b0));
                    } else {
                        done += 1;
                    }
                }
                Job::Pos(id) => {
                    let p = &f.positions[&id];
                    let amount = p.lp_asset.amount.u128();
                    let cur = fobserve(w);
                    let pos_now = match cur.positions.get(&id) {
                        Some(p) => p.clone(),
                        None => continue,
                    };
                    let b0 = w.balance(&p.receiver, &p.lp_asset.denom);
                    let via_close = pos_now.open && self.rng.gen_bool(0.5);
                    let out = if via_close {
                        // the ordinary way out: claim, close, wait, withdraw - in full
                        let _ = w.apply(&crate::wfarm::claim_op(&p.receiver, None));
                        let c = w.apply(&pos_op(&p.receiver, PositionAction::Close { identifier: id.clone(), lp_asset: None }, vec![]));
                        if !c.is_ok() && c.err_msg().map(|m| m.contains("Maximum number of open/close positions")).unwrap_or(false) {
                            // the documented limit of ten closed positions per user: this one has to
                            // wait until others have been withdrawn; it takes the emergency exit here
                            let o = w.apply(&pos_op(&p.receiver, PositionAction::Withdraw { identifier: id.clone(), emergency_unlock: Some(true) }, vec![]));
                            if !o.is_ok() && amount <= 300_000_000_000_000_000_000 {
                                failed.push(format!("withdrawing position {id} ({amount} LP, open=true): {}", o.short()));
                            } else {
                                done += 1;
                            }
                            continue;
                        }
                        if !c.is_ok() {
                            failed.push(format!("closing position {id} ({amount} LP){}: {}", if repointed { " after the pool manager address was changed" } else { "" }, c.short()));
                            continue;
                        }
                        let exp = fobserve(w).positions.get(&id).and_then(|q| q.expiring_at).unwrap_or(0);
                        if w.now() < exp {
                            w.set_time(exp);
                        }
                        let b_before = w.balance(&p.receiver, &p.lp_asset.denom);
                        let o = w.apply(&pos_op(&p.receiver, PositionAction::Withdraw { identifier: id.clone(), emergency_unlock: None }, vec![]));
                        if o.is_ok() && w.balance(&p.receiver, &p.lp_asset.denom) - b_before != amount {
                            failed.push(format!("position {id}: closed and withdrawn but the owner received {} of {amount}", w.balance(&p.receiver, &p.lp_asset.denom) - b_before));
                        }
                        o
                    } else if pos_now.open {
                        // an open position leaves through the emergency exit (penalty goes to
                        // third parties but must be there to be paid)
                        w.apply(&pos_op(&p.receiver, PositionAction::Withdraw { identifier: id.clone(), emergency_unlock: Some(true) }, vec![]))
                    } else {
                        let exp = pos_now.expiring_at.unwrap_or(0);
                        if w.now() < exp {
                            w.set_time(exp);
                        }
                        w.apply(&pos_op(&p.receiver, PositionAction::Withdraw { identifier: id.clone(), emergency_unlock: None }, vec![]))
                    };
                    let b1 = w.balance(&p.receiver, &p.lp_asset.denom);
                    // a position of more than ~3.4e20 units cannot leave through the emergency
                    // exit (the penalty computation overflows and aborts): that is C09's business
                    let too_big = pos_now.open && amount > 300_000_000_000_000_000_000;
                    if !out.is_ok() && !too_big {
                        failed.push(format!("withdrawing position {id} ({amount} LP, open={}): {}", pos_now.open, out.short()));
                    } else if out.is_ok() && !pos_now.open && b1 - b0 != amount {
                        failed.push(format!("position {id}: owner received {} of {amount}", b1 - b0));
                    } else {
                        done += 1;
                    }
                }
            }
        }
        let abs = hash_of(&(f.positions.len().min(20), f.farms.len(), f.positions.values().filter(|p| p.open).count().min(10)));
        if failed.is_empty() {
            rep.held("drain_everything", abs, || json!({"positions": f.positions.len(), "farms": f.farms.len(), "operations_done": done, "order": "random"}));
        } else {
            rep.failed("drain_everything", None, format!("custody could not be drained: {}", failed.join("; ")), witness(json!({"failed": failed})));
        }
        w.restore(&snap);
    }
}

impl Monitor for C05 {
    fn step(&mut self, w: &mut World, s: &Step, rep: &mut Reporter) {
        if let (Op::Send { to, coins, .. }, true) = (s.op, s.out.is_ok()) {
            if *to == w.fm {
                for c in coins {
                    *self.donations.entry(c.denom.clone()).or_default() += c.amount.u128();
                }
            }
        }
        let need = needed(s.fpost);
        let mut bad = vec![];
        let mut slack_unexplained = vec![];
        for (d, n) in &need {
            let b = s.post.bal(&w.fm, d);
            if b < *n {
                bad.push(json!({"denom": d, "farm_manager_balance": b.to_string(), "positions_plus_unclaimed_rewards": n.to_string(), "deficit": (n - b).to_string()}));
            } else if b - n > self.donations.get(d).copied().unwrap_or(0) {
                slack_unexplained.push(d.clone());
            }
        }
        let lp_reward = s.fpost.farms.values().any(|f| f.farm_asset.denom.starts_with("factory/"));
        let abs = hash_of(&(s.op.kind(), s.out.is_ok(), s.fpost.positions.len().min(12), s.fpost.farms.len(), lp_reward));
        if bad.is_empty() {
            rep.held("custody", abs, || {
                json!({"after": s.op.kind(), "result": s.out.short(), "positions": s.fpost.positions.len(), "farms": s.fpost.farms.len(), "denoms_checked": need.len(), "a_farm_pays_in_an_lp_token": lp_reward})
            });
        } else {
            rep.failed("custody", None, format!("after {}: farm manager holds less than positions + unclaimed rewards: {}", s.op.kind(), serde_json::to_string(&bad).unwrap()), witness(json!({"deficits": bad})));
        }
        if !slack_unexplained.is_empty() {
            rep.count("custody", "surplus_beyond_donations_(penalty_dust/orphaned_refunds/stray_coins)");
        }
        if s.idx % self.drain_every == self.drain_every - 1 {
            self.drain(w, s.fpost, rep);
        }
        let _ = self.rng.gen_range(0..2);
    }
}
