//! C10 — LP weights: the total covers the sum of the users' weights; the weight curve is sane.

use std::collections::{BTreeMap, BTreeSet};

use cosmwasm_std::coin;
use mantra_dex_std::farm_manager as fm;
use mantra_dex_std::farm_manager::PositionAction;
use num_bigint::BigInt;
use num_integer::Integer;
use num_traits::{Signed, ToPrimitive};
use rand::rngs::StdRng;
use rand::{Rng, SeedableRng};
use serde_json::json;

use crate::exact::{bi, weight_multiplier};
use crate::farmobs::weight_at;
use crate::ops::{witness, Monitor, Op, Step};
use crate::report::{hash_of, Reporter};
use crate::wfarm::{fobserve, pos_op, FObs};
use crate::world::World;
use crate::wpool::log_uniform;

pub struct C10 {
    rng: StdRng,
    /// LP denoms for which a partial close or a piecewise top-up has been seen
    pieces: BTreeSet<String>,
    /// (amount, duration, weight) of every fresh single-position weight observed
    seen: Vec<(u128, u64, u128)>,
    pub sweep_every: usize,
    /// how often each (user, LP token) weight history changed: an upper bound on the units that
    /// rounding can have taken from that user's weight
    changes: BTreeMap<(String, String), u128>,
}

impl C10 {
    pub fn new(seed: u64) -> C10 {
        C10 {
            rng: StdRng::seed_from_u64(seed ^ 0xC10),
            pieces: BTreeSet::new(),
            seen: vec![],
            sweep_every: 150,
            changes: BTreeMap::new(),
        }
    }
}

/// exact weight amount x multiplier(duration) as (floor, is_exact)
pub fn exact_weight(amount: u128, duration: u64) -> BigInt {
    let (n, d) = weight_multiplier(duration);
    (bi(amount) * n).div_floor(&d)
}

/// allowed deviation of the contract's 18-digit fixed point from the exact quadratic
pub fn weight_slack(amount: u128) -> BigInt {
    bi(1) + bi(amount) / bi(10u128.pow(16))
}

fn mag(x: u128) -> i32 {
    if x == 0 {
        -1
    } else {
        (x as f64).log10() as i32
    }
}

impl C10 {
    fn check_curve_point(&mut self, amount: u128, duration: u64, w_obs: u128, rep: &mut Reporter, how: &str) {
        let abs = hash_of(&(mag(amount), duration / 1_000_000, how));
        let ex = exact_weight(amount, duration);
        let mut errs = vec![];
        if w_obs < amount {
            errs.push(format!("weight {w_obs} below the LP amount {amount}"));
        }
        if bi(w_obs) > bi(amount) * 16 {
            errs.push(format!("weight {w_obs} above 16x the LP amount {amount}"));
        }
        // the contract clamps to >= amount; the exact curve is >= 1x on the allowed range
        let dev = (bi(w_obs) - ex.clone().max(bi(amount))).abs();
        if dev > weight_slack(amount) {
            errs.push(format!("weight {w_obs} differs from the documented curve value {ex} by {dev}"));
        }
        // monotone in both arguments against everything seen so far
        for (a, d, wt) in &self.seen {
            if *a <= amount && *d <= duration && *wt > w_obs {
                errs.push(format!("not monotone: ({a} LP, {d}s) -> {wt} but ({amount} LP, {duration}s) -> {w_obs}"));
                break;
            }
            if *a >= amount && *d >= duration && *wt < w_obs {
                errs.push(format!("not monotone: ({a} LP, {d}s) -> {wt} but ({amount} LP, {duration}s) -> {w_obs}"));
                break;
            }
        }
        if self.seen.len() < 3000 {
            self.seen.push((amount, duration, w_obs));
        }
        if errs.is_empty() {
            rep.held("curve", abs, || json!({"lp_amount": amount.to_string(), "unlocking_duration": duration, "weight": w_obs.to_string(), "exact_curve_floor": ex.to_string(), "observed_via": how}));
        } else {
            rep.failed("curve", None, errs.join("; "), witness(json!({"lp_amount": amount.to_string(), "unlocking_duration": duration, "weight": w_obs.to_string(), "exact": ex.to_string()})));
        }
    }

    /// forked sweeps: a fresh user opens one position; vary one argument at a time
    fn sweep(&mut self, w: &mut World, s: &Step, rep: &mut Reporter) {
        let cur = match s.fpost.epoch {
            Some(e) => e,
            None => return,
        };
        // a (user, lp) pair without any weight
        let mut pick = None;
        for u in w.users.iter().chain([&w.hostile]) {
            for p in s.post.pools.values() {
                let lp = &p.info.lp_denom;
                if s.post.bal(u, lp) > 1_000_000 && !s.fpost.weights.contains_key(&(u.to_string(), lp.clone())) && s.fpost.positions.values().filter(|q| q.receiver == *u && q.open).count() < 9 {
                    pick = Some((u.clone(), lp.clone(), s.post.bal(u, lp)));
                }
            }
        }
        let (u, lp, bal) = match pick {
            Some(x) => x,
            None => return,
        };
        let snap = w.snapshot();
        let cfg = &s.fpost.cfg;
        let (dmin, dmax) = (cfg.min_unlocking_duration.max(86_400), cfg.max_unlocking_duration.min(31_556_926));
        if dmin > dmax {
            return;
        }
        let mut observe = |w: &mut World, amount: u128, dur: u64| -> Option<u128> {
            w.restore(&snap);
            let out = w.apply(&pos_op(&u, PositionAction::Create { identifier: None, unlocking_duration: dur, receiver: None }, vec![coin(amount, lp.clone())]));
            if !out.is_ok() {
                return None;
            }
            let r: Result<fm::LpWeightResponse, String> = w.query(&w.fm, &fm::QueryMsg::LpWeight { address: u.to_string(), denom: lp.clone(), epoch_id: cur + 1 });
            r.ok().map(|x| x.lp_weight.u128())
        };
        // fixed amount, increasing duration
        let amount = match self.rng.gen_range(0..4) {
            0 => self.rng.gen_range(1..4),
            1 => self.rng.gen_range(4..1000),
            _ => log_uniform(&mut self.rng, 1, (bal / 4).min(10u128.pow(20))),
        };
        let mut ds: Vec<u64> = (0..6).map(|_| self.rng.gen_range(dmin..=dmax)).collect();
        ds.extend([dmin, dmax]);
        if dmin <= 15_778_463 && 15_778_463 <= dmax {
            ds.push(15_778_463);
        }
        ds.sort();
        ds.dedup();
        let mut pts = vec![];
        for d in ds {
            if let Some(wt) = observe(w, amount, d) {
                pts.push((amount, d, wt));
            }
        }
        // fixed duration, increasing amount (incl. 1, 2, 3 units)
        let dur = self.rng.gen_range(dmin..=dmax);
        let mut amts: Vec<u128> = vec![1, 2, 3];
        for _ in 0..5 {
            amts.push(log_uniform(&mut self.rng, 1, (bal / 4).min(10u128.pow(20))));
        }
        amts.sort();
        amts.dedup();
        for a in amts {
            if let Some(wt) = observe(w, a, dur) {
                pts.push((a, dur, wt));
            }
        }
        w.restore(&snap);
        for (a, d, wt) in pts {
            self.check_curve_point(a, d, wt, rep, "forked sweep");
        }
    }
}

impl C10 {
    /// forked: positions so large that amount x multiplier approaches 2^128 (LP balances are minted
    /// straight into the bank for this). Whatever is accepted must lie on the curve, and the total
    /// must keep covering the users.
    fn huge_probe(&mut self, w: &mut World, s: &Step, rep: &mut Reporter) {
        let cur = match s.fpost.epoch {
            Some(e) => e,
            None => return,
        };
        let lp = match s.post.pools.values().next() {
            Some(p) => p.info.lp_denom.clone(),
            None => return,
        };
        let cfg = &s.fpost.cfg;
        if cfg.max_unlocking_duration < 31_556_926 || cfg.min_unlocking_duration > 31_556_926 {
            return;
        }
        let snap = w.snapshot();
        let fm_addr = w.fm.to_string();
        let users: Vec<cosmwasm_std::Addr> = w.users.iter().take(3).cloned().collect();
        let e37 = 10u128.pow(37);
        let plan: [(usize, u128); 4] = [(0, e37), (1, 22 * e37 / 10), (2, 15 * e37 / 10), (1, 3 * e37 / 10)];
        for (k, (ui, amount)) in plan.iter().enumerate() {
            let u = &users[*ui % users.len()];
            w.mint_to(u, coin(*amount, lp.clone()));
            let before = fobserve(w);
            let own_before = before.weights.get(&(u.to_string(), lp.clone())).and_then(|h| h.iter().next_back().map(|(_, x)| *x)).unwrap_or(0);
            let out = w.apply(&pos_op(u, PositionAction::Create { identifier: Some(format!("huge{}x{k}", s.idx)), unlocking_duration: 31_556_926, receiver: None }, vec![coin(*amount, lp.clone())]));
            if !out.is_ok() {
                rep.held("curve", hash_of(&("huge_refused", k)), || json!({"amount": amount.to_string(), "duration": 31_556_926, "result": out.short()}));
                continue;
            }
            let f = fobserve(w);
            let own = f.weights.get(&(u.to_string(), lp.clone())).and_then(|h| h.iter().next_back().map(|(_, x)| *x)).unwrap_or(0);
            self.check_curve_point(*amount, 31_556_926, own.saturating_sub(own_before), rep, "forked huge position");
            // the total for the pending epoch covers the users
            let total = weight_at(f.weights.get(&(fm_addr.clone(), lp.clone())), cur + 1);
            let sum: BigInt = f.weights.iter().filter(|((a, d), _)| *a != fm_addr && *d == lp).map(|(_, h)| bi(weight_at(Some(h), cur + 1))).sum();
            if bi(total) < sum {
                rep.failed("total_ge_sum", None, format!("after a position of {amount} LP: total weight {total} < sum of users {sum}"), witness(json!({"lp": lp, "total": total.to_string(), "sum_users": sum.to_string()})));
            } else {
                rep.held("total_ge_sum", hash_of(&("huge", k)), || json!({"lp": lp, "total": total.to_string(), "sum_users": sum.to_string(), "after": "a position of the order of 1e37 LP"}));
            }
        }
        w.restore(&snap);
    }
}

impl C10 {
    /// forked: one staker tops a position up in twelve consecutive epochs without claiming (twelve
    /// and more weight snapshots), then leaves the LP token through the emergency exit of every
    /// open position there: no weight of theirs may stay in effect
    fn many_snapshots_probe(&mut self, w: &mut World, s: &Step, rep: &mut Reporter) {
        let cands: Vec<&mantra_dex_std::farm_manager::Position> = s.fpost.positions.values().filter(|p| p.open && p.lp_asset.amount.u128() < 10u128.pow(20)).collect();
        let pos = match cands.get(s.idx / 7 % cands.len().max(1)) {
            Some(p) => (*p).clone(),
            None => return,
        };
        let (u, lp) = (pos.receiver.clone(), pos.lp_asset.denom.clone());
        let snap = w.snapshot();
        let fm_addr = w.fm.to_string();
        let mut tops = 0;
        for _ in 0..12 {
            w.advance(w.cfg.epoch_duration);
            w.mint_to(&u, coin(10, lp.clone()));
            if w.apply(&pos_op(&u, PositionAction::Expand { identifier: pos.identifier.clone() }, vec![coin(10, lp.clone())])).is_ok() {
                tops += 1;
            }
        }
        let before = fobserve(w);
        let snaps = before.weights.get(&(u.to_string(), lp.clone())).map(|h| h.len()).unwrap_or(0);
        let mut left = true;
        for p in before.positions.values().filter(|p| p.open && p.receiver == u && p.lp_asset.denom == lp) {
            left &= w.apply(&pos_op(&u, PositionAction::Withdraw { identifier: p.identifier.clone(), emergency_unlock: Some(true) }, vec![])).is_ok();
        }
        if !left || tops < 11 {
            rep.count("no_open_no_weight", "many_snapshots_probe: could not build the history or leave");
            w.restore(&snap);
            return;
        }
        let f = fobserve(w);
        let cur = f.epoch.unwrap_or(0);
        let own = weight_at(f.weights.get(&(u.to_string(), lp.clone())), cur + 1);
        let stale: Vec<(u64, u128)> = f.weights.get(&(u.to_string(), lp.clone())).map(|h| h.iter().map(|(e, x)| (*e, *x)).collect()).unwrap_or_default();
        if own != 0 {
            rep.failed("no_open_no_weight", None, format!("{} left the LP token (every open position withdrawn) after {snaps} weight snapshots, but a weight of {own} stays in effect", w.name_of(u.as_str())), witness(json!({"lp": lp, "snapshots_left": stale, "snapshots_before_leaving": snaps})));
        } else {
            rep.held("no_open_no_weight", hash_of(&("left_after_many_snapshots", snaps.min(14))), || json!({"lp": lp, "snapshots_before_leaving": snaps, "weight_in_effect_after_leaving": "0"}));
        }
        // and the total still covers the users
        let total = weight_at(f.weights.get(&(fm_addr.clone(), lp.clone())), cur + 1);
        let sum: BigInt = f.weights.iter().filter(|((a, d), _)| *a != fm_addr && *d == lp).map(|(_, h)| bi(weight_at(Some(h), cur + 1))).sum();
        if bi(total) < sum {
            rep.failed("total_ge_sum", None, format!("after a staker with {snaps} snapshots left: total weight {total} < sum of users {sum}"), witness(json!({"lp": lp, "total": total.to_string(), "sum_users": sum.to_string()})));
        }
        w.restore(&snap);
    }
}

fn lp_denoms(f: &FObs) -> BTreeSet<String> {
    f.weights.keys().map(|(_, d)| d.clone()).collect()
}

impl Monitor for C10 {
    fn step(&mut self, w: &mut World, s: &Step, rep: &mut Reporter) {
        let fm_addr = w.fm.to_string();
        // bookkeeping: has this denom seen partial closes / piecewise top-ups?
        if let (Op::Fm { msg: fm::ExecuteMsg::ManagePosition { action }, funds, .. }, true) = (s.op, s.out.is_ok()) {
            match action {
                PositionAction::Expand { .. } => {
                    if let Some(c) = funds.first() {
                        self.pieces.insert(c.denom.clone());
                    }
                }
                PositionAction::Close { identifier, lp_asset: Some(a) } => {
                    if let Some(p) = s.fpre.positions.get(identifier) {
                        if a.amount < p.lp_asset.amount {
                            self.pieces.insert(a.denom.clone());
                        }
                    }
                }
                _ => {}
            }
        }
        if let (Op::Pm { msg: mantra_dex_std::pool_manager::ExecuteMsg::ProvideLiquidity { unlocking_duration: Some(_), lock_position_identifier: Some(_), pool_identifier, .. }, .. }, true) = (s.op, s.out.is_ok()) {
            self.pieces.insert(w.lp_denom(pool_identifier));
        }

        // clause 1: total >= sum of users, for the running and the pending epoch
        if let Some(cur) = s.fpost.epoch {
            for lp in lp_denoms(s.fpost) {
                for e in [cur, cur + 1] {
                    let total = weight_at(s.fpost.weights.get(&(fm_addr.clone(), lp.clone())), e);
                    let mut sum: u128 = 0;
                    let mut users = 0;
                    for ((a, d), h) in &s.fpost.weights {
                        if d == &lp && a != &fm_addr {
                            let x = weight_at(Some(h), e);
                            if x > 0 {
                                users += 1;
                            }
                            sum += x;
                        }
                    }
                    let abs = hash_of(&(&lp, e == cur, users.min(6), s.op.kind(), self.pieces.contains(&lp)));
                    if total < sum {
                        rep.failed(
                            "total_ge_sum",
                            None,
                            format!("LP {lp} epoch {e}: total weight {total} < sum of the users' weights {sum} ({users} users) after {}", s.op.kind()),
                            witness(json!({"lp": lp, "epoch": e, "total": total.to_string(), "sum_users": sum.to_string(), "users": users})),
                        );
                    } else if e == cur + 1 && !self.pieces.contains(&lp) && total != sum {
                        rep.failed(
                            "total_eq_sum_without_pieces",
                            None,
                            format!("LP {lp} pending epoch {e}: total weight {total} != sum of users {sum} although no position was partially closed or topped up in pieces"),
                            witness(json!({"lp": lp, "epoch": e, "total": total.to_string(), "sum_users": sum.to_string()})),
                        );
                    } else {
                        rep.held("total_ge_sum", abs, || json!({"lp": lp, "epoch": e, "total": total.to_string(), "sum_users": sum.to_string(), "users": users, "after": s.op.kind()}));
                    }
                }
            }
        }

        // clause 2: no open position in a denom => no weight in it
        let mut open: BTreeSet<(String, String)> = BTreeSet::new();
        for p in s.fpost.positions.values() {
            if p.open {
                open.insert((p.receiver.to_string(), p.lp_asset.denom.clone()));
            }
        }
        for ((a, d), h) in &s.fpost.weights {
            if a == &fm_addr {
                continue;
            }
            let abs = hash_of(&(s.op.kind(), open.contains(&(a.clone(), d.clone()))));
            if !open.contains(&(a.clone(), d.clone())) && h.values().any(|x| *x > 0) {
                rep.failed("no_open_no_weight", None, format!("{} has weight in {d} without an open position", w.name_of(a)), witness(json!({"address": w.name_of(a), "lp": d, "snapshots": h.iter().map(|(e, x)| (e.to_string(), x.to_string())).collect::<BTreeMap<_, _>>()})));
            } else {
                rep.held("no_open_no_weight", abs, || json!({"address": w.name_of(a), "lp": d, "has_open_position": open.contains(&(a.clone(), d.clone()))}));
            }
        }

        for (k, h) in &s.fpost.weights {
            if k.0 != fm_addr && s.fpre.weights.get(k) != Some(h) {
                *self.changes.entry(k.clone()).or_default() += 1;
            }
        }
        // clause 2b: a user's latest weight covers its open positions - every open position weighs
        // at least its LP amount and at most 16 times it, so the user's weight in an LP token
        // lies between the sum of its open amounts and 16 times that sum (one unit of rounding
        // per position the user ever split or built in pieces there)
        {
            let mut sums: BTreeMap<(String, String), (u128, u128)> = BTreeMap::new();
            for p in s.fpost.positions.values() {
                let e = sums.entry((p.receiver.to_string(), p.lp_asset.denom.clone())).or_default();
                e.1 += 1;
                if p.open {
                    e.0 += p.lp_asset.amount.u128();
                }
            }
            for ((a, d), (open_lp, npos)) in &sums {
                if *open_lp == 0 {
                    continue;
                }
                let latest = s.fpost.weights.get(&(a.clone(), d.clone())).and_then(|h| h.iter().next_back().map(|(_, x)| *x)).unwrap_or(0);
                let slack = *npos + 2 + self.changes.get(&(a.clone(), d.clone())).copied().unwrap_or(0);
                let abs = hash_of(&("covers", s.op.kind(), (*open_lp as f64).log10() as i32));
                if latest + slack < *open_lp {
                    rep.failed("weight_covers_open_lp", None, format!("{} holds open positions of {open_lp} {d} but its weight is only {latest}", w.name_of(a)), witness(json!({"address": w.name_of(a), "lp": d, "open_lp": open_lp.to_string(), "weight": latest.to_string()})));
                } else if bi(latest) > bi(*open_lp) * 16 + bi(slack) {
                    rep.failed("weight_covers_open_lp", None, format!("{} holds open positions of {open_lp} {d} but its weight is {latest}, more than 16 times that", w.name_of(a)), witness(json!({"address": w.name_of(a), "lp": d, "open_lp": open_lp.to_string(), "weight": latest.to_string()})));
                } else {
                    rep.held("weight_covers_open_lp", abs, || json!({"address": w.name_of(a), "lp": d, "open_lp": open_lp.to_string(), "weight": latest.to_string()}));
                }
            }
        }

        // clauses 3 + 4 on real position operations
        if let (Op::Fm { sender, msg: fm::ExecuteMsg::ManagePosition { action }, funds }, true, Some(cur)) = (s.op, s.out.is_ok(), s.fpre.epoch) {
            // takes effect next epoch: the weight in effect now is untouched (contract total)
            for lp in lp_denoms(s.fpost).union(&lp_denoms(s.fpre)) {
                let k = (fm_addr.clone(), lp.clone());
                let before = weight_at(s.fpre.weights.get(&k), cur);
                let after = weight_at(s.fpost.weights.get(&k), cur);
                let pending_changed = weight_at(s.fpre.weights.get(&k), cur + 1) != weight_at(s.fpost.weights.get(&k), cur + 1);
                if before != after {
                    rep.failed("takes_effect_next_epoch", None, format!("total weight of {lp} in effect for the running epoch {cur} changed {before} -> {after} by a position operation"), witness(json!({"lp": lp, "epoch": cur})));
                } else if pending_changed {
                    rep.held("takes_effect_next_epoch", hash_of(&(s.op.kind(), lp)), || json!({"lp": lp, "running_epoch": cur, "running_total_unchanged": before.to_string(), "pending_total": weight_at(s.fpost.weights.get(&k), cur + 1).to_string()}));
                }
            }
            if let PositionAction::Create { unlocking_duration, receiver: None, .. } = action {
                if let Some(c) = funds.first() {
                    let k = (sender.to_string(), c.denom.clone());
                    if !s.fpre.weights.contains_key(&k) {
                        if let Some(h) = s.fpost.weights.get(&k) {
                            if let Some(wt) = h.get(&(cur + 1)) {
                                let (a, d, wv) = (c.amount.u128(), *unlocking_duration, *wt);
                                self.check_curve_point(a, d, wv, rep, "first position of a user in the workload");
                            }
                            if h.keys().any(|e| *e <= cur) {
                                rep.failed("takes_effect_next_epoch", None, format!("new position of {} has weight in the running epoch {cur}", w.name_of(sender.as_str())), witness(json!({})));
                            }
                        }
                    }
                }
            }
        }
        if s.idx % self.sweep_every == self.sweep_every - 1 {
            self.sweep(w, s, rep);
        }
        if s.idx % (2 * self.sweep_every) == self.sweep_every + 7 {
            self.huge_probe(w, s, rep);
        }
        if s.idx % (2 * self.sweep_every) == self.sweep_every + 11 {
            self.many_snapshots_probe(w, s, rep);
        }
        let _ = (fobserve as fn(&World) -> FObs, ToPrimitive::to_u64(&0u8));
    }
}
