//! C20 — rejected or partially failing operations leave no trace.

use std::collections::BTreeMap;

use mantra_dex_std::farm_manager as fm;
use mantra_dex_std::farm_manager::FarmAction;
use serde_json::json;

use crate::ops::{observe, witness, Monitor, Op, Step};
use crate::report::{hash_of, Reporter};
use crate::wfarm::fobserve;
use crate::world::{BankKind, CallKind, World};

#[derive(Default)]
pub struct C20 {
    per_kind: BTreeMap<&'static str, usize>,
    pub first_n: usize,
    pub then_every: usize,
    probe_n: u32,
    pub farm_side: bool,
}

impl C20 {
    pub fn new(first_n: usize, then_every: usize) -> C20 {
        C20 {
            per_kind: BTreeMap::new(),
            first_n,
            then_every,
            probe_n: 0,
            farm_side: false,
        }
    }
}

impl C20 {
    /// forked: an expired farm whose refund is blocked must not stop somebody else's creation
    /// (automatic close), and everything else must equal the unblocked run
    fn auto_close_probe(&mut self, w: &mut World, s: &Step, rep: &mut Reporter) {
        use crate::wfarm::{farm_funds, farm_op};
        use cosmwasm_std::coin;
        use mantra_dex_std::farm_manager::FarmParams;
        let cur = match s.fpost.epoch {
            Some(e) => e,
            None => return,
        };
        let lp = match s.post.pools.values().next() {
            Some(p) => p.info.lp_denom.clone(),
            None => return,
        };
        if s.fpost.farms.values().filter(|f| f.lp_denom == lp).count() as u32 >= s.fpost.cfg.max_concurrent_farms {
            return;
        }
        let snap = w.snapshot();
        let (x, y) = (w.users[0].clone(), w.users[1].clone());
        let fee = s.fpost.cfg.create_farm_fee.clone();
        self.probe_n += 1;
        let room = s.fpost.cfg.max_concurrent_farms - s.fpost.farms.values().filter(|f| f.lp_denom == lp).count() as u32;
        // the blocked owner gets up to two expired farms paying different tokens, so that one of
        // the refunds can be frozen while the other must still arrive
        let olds = [coin(5_000, "uwbtc"), coin(7_000, "ux12")];
        let n_old = (room as usize).min(2);
        let mk = |id: String, start: u64, reward: &cosmwasm_std::Coin| FarmAction::Create { params: FarmParams { lp_denom: lp.clone(), start_epoch: Some(start), preliminary_end_epoch: Some(start + 2), curve: None, farm_asset: reward.clone(), farm_identifier: Some(id) } };
        for (i, reward) in olds.iter().take(n_old).enumerate() {
            if !w.apply(&farm_op(&x, mk(format!("old{}x{i}", self.probe_n), cur + 1, reward), farm_funds(reward, &fee))).is_ok() {
                w.restore(&snap);
                return;
            }
        }
        // far beyond the farms' end and the expiration time
        w.advance((4 + 1) * w.cfg.epoch_duration + s.fpost.cfg.farm_expiration_time + 10);
        let later = fobserve(w).epoch.unwrap_or(cur + 40);
        let base = w.snapshot();
        let before = fobserve(w);
        let reward = coin(5_000, "uusdc");
        let create = farm_op(&y, mk(format!("new{}", self.probe_n), later + 1, &reward), farm_funds(&reward, &fee));
        let reference = w.apply(&create);
        if !reference.is_ok() {
            w.restore(&snap);
            return;
        }
        let (ro, rf) = (observe(w), fobserve(w));
        w.restore(&base);
        // variant A: the owner cannot receive anything; variant B: one token is frozen
        let by_denom = n_old == 2 && self.probe_n % 2 == 0;
        if by_denom {
            w.mon.borrow_mut().fail_denom = Some("uwbtc".to_string());
        } else {
            w.mon.borrow_mut().fail_send_to = Some(x.to_string());
        }
        let out = w.apply(&create);
        w.mon.borrow_mut().fail_send_to = None;
        w.mon.borrow_mut().fail_denom = None;
        let (o, f) = (observe(w), fobserve(w));
        let mut errs = vec![];
        if !out.is_ok() {
            errs.push(format!("a blocked refund to the expired farm's owner made somebody else's farm creation fail: {}", out.short()));
        } else {
            if f.farms != rf.farms || f.positions != rf.positions {
                errs.push("farms / positions differ from the unblocked run".to_string());
            }
            // expectation from the farms' own records (not from the transfers the code chose to
            // make): each farm closed by the creation refunds its own remainder to its own owner,
            // and exactly the refunds that hit the block stay in the contract
            let mut blocked: BTreeMap<(String, String), u128> = BTreeMap::new();
            for (id, g) in &before.farms {
                if rf.farms.contains_key(id) {
                    continue;
                }
                let hit = if by_denom { g.farm_asset.denom == "uwbtc" } else { g.owner == x };
                if hit {
                    *blocked.entry((g.owner.to_string(), g.farm_asset.denom.clone())).or_default() += g.farm_asset.amount.u128().saturating_sub(g.claimed_amount.u128());
                }
            }
            for (acct, bals) in &ro.bal {
                for (d, amt) in bals {
                    let mut exp = *amt as i128;
                    if let Some(b) = blocked.get(&(acct.clone(), d.clone())) {
                        exp -= *b as i128;
                    }
                    if acct == w.fm.as_str() {
                        exp += blocked.iter().filter(|((_, bd), _)| bd == d).map(|(_, b)| *b as i128).sum::<i128>();
                    }
                    if o.bal.get(acct).and_then(|m| m.get(d)).copied().unwrap_or(0) as i128 != exp {
                        errs.push(format!("balance of {} in {d} differs from the unblocked run beyond the refunds that were blocked ({})", w.name_of(acct), if by_denom { "uwbtc frozen" } else { "owner cannot receive" }));
                    }
                }
            }
        }
        let _ = &reference;
        if errs.is_empty() {
            rep.held("tolerated_refund_failure", hash_of(&("auto_close_probe", fee.amount.is_zero(), n_old, by_denom)), || json!({"scenario": "expired farms auto-closed by another user's creation", "expired_farms_of_blocked_owner": n_old, "block": if by_denom { "one reward token frozen" } else { "owner cannot receive transfers" }, "creation": "succeeds", "rest": "identical to the unblocked run; only the blocked refunds stay in the contract"}));
        } else {
            rep.failed("tolerated_refund_failure", None, errs.join("; "), witness(json!({"scenario": "auto close with blocked refund", "by_denom": by_denom, "old_farms": n_old})));
        }
        w.restore(&snap);
    }
}

impl Monitor for C20 {
    fn step(&mut self, w: &mut World, s: &Step, rep: &mut Reporter) {
        if self.farm_side && s.idx % 40 == 39 {
            self.auto_close_probe(w, s, rep);
        }
        if matches!(s.op, Op::Advance { .. }) {
            return;
        }
        // ---- clause 1: every rejected / aborted message is a no-op on the whole chain state
        if !s.out.is_ok() {
            let class = crate::ops::err_class(s.out.err_msg().unwrap_or(""));
            if *w.state() == s.pre_snap.storage {
                rep.held("reject_noop", hash_of(&(s.op.kind(), class, s.out.is_abort())), || json!({"op": s.op.kind(), "result": s.out.short(), "chain_calls_attempted": s.out.calls().len()}));
            } else {
                rep.failed("reject_noop", None, format!("rejected {} changed the chain state ({})", s.op.kind(), s.out.short()), witness(json!({"result": s.out.short()})));
            }
            return;
        }
        // ---- clause 2: a failure at each successive internal call
        let n = self.per_kind.entry(s.op.kind()).or_default();
        *n += 1;
        if !(*n <= self.first_n || *n % self.then_every == 0) {
            return;
        }
        let calls: Vec<CallKind> = s.out.calls().to_vec();
        if calls.is_empty() {
            return;
        }
        let post_snap = w.snapshot();
        let ref_obs = s.post;
        let ref_f = s.fpost;
        // which bank sends of the reference run were refunds of farms being closed
        let closing = matches!(s.op, Op::Fm { msg: fm::ExecuteMsg::ManageFarm { action: FarmAction::Close { .. } | FarmAction::Create { .. } }, .. });
        let mut refund_sends: Vec<usize> = vec![]; // indexes into the successful log
        if closing {
            for (id, f) in &s.fpre.farms {
                let gone = !s.fpost.farms.contains_key(id) || s.fpost.farms.get(id).map(|g| g.start_epoch != f.start_epoch || g.claimed_amount < f.claimed_amount).unwrap_or(false);
                if gone {
                    let rem = f.farm_asset.amount.u128().saturating_sub(f.claimed_amount.u128());
                    for (i, e) in s.out.log().iter().enumerate() {
                        if e.kind == BankKind::Send && e.from == w.fm.as_str() && e.to == f.owner.as_str() && e.coins.len() == 1 && e.coins[0].denom == f.farm_asset.denom && e.coins[0].amount.u128() == rem && !refund_sends.contains(&i) {
                            refund_sends.push(i);
                            break;
                        }
                    }
                }
            }
        }
        // map call index -> index of the bank log entry it produced (bank calls only)
        let mut bank_idx = 0usize;
        let mut call_to_log: BTreeMap<usize, usize> = BTreeMap::new();
        for (k, c) in calls.iter().enumerate() {
            if matches!(c, CallKind::BankSend | CallKind::BankBurn | CallKind::BankMint) {
                call_to_log.insert(k, bank_idx);
                bank_idx += 1;
            }
        }
        for k in 1..=calls.len() {
            w.restore(s.pre_snap);
            w.mon.borrow_mut().fail_at = Some(k);
            let out = w.apply(s.op);
            w.mon.borrow_mut().fail_at = None;
            let what = format!("{:?}", calls[k - 1]);
            let tolerated = call_to_log.get(&(k - 1)).map(|li| refund_sends.contains(li)).unwrap_or(false);
            let abs = hash_of(&(s.op.kind(), &what, k.min(12), tolerated));
            if tolerated {
                // the one tolerated failure: a refund that fails while a farm is being closed
                let o = observe(w);
                let f = fobserve(w);
                let li = call_to_log[&(k - 1)];
                let ev = &s.out.log()[li];
                let mut errs = vec![];
                if !out.is_ok() {
                    errs.push(format!("a blocked refund made the whole {} fail: {}", s.op.kind(), out.short()));
                } else {
                    if f.farms != ref_f.farms || f.positions != ref_f.positions || f.cfg != ref_f.cfg || f.weights != ref_f.weights {
                        errs.push("farms / positions / configuration differ from the run in which the refund went through".to_string());
                    }
                    for (acct, bals) in &ref_obs.bal {
                        for (d, amt) in bals {
                            let mut exp = *amt as i128;
                            if d == &ev.coins[0].denom {
                                if acct == &ev.to {
                                    exp -= ev.coins[0].amount.u128() as i128;
                                }
                                if acct == &ev.from {
                                    exp += ev.coins[0].amount.u128() as i128;
                                }
                            }
                            if o.bal.get(acct).and_then(|m| m.get(d)).copied().unwrap_or(0) as i128 != exp {
                                errs.push(format!("balance of {} in {d} differs from the unblocked run (other than by the refund itself)", w.name_of(acct)));
                            }
                        }
                    }
                }
                if errs.is_empty() {
                    rep.held("tolerated_refund_failure", abs, || json!({"op": s.op.kind(), "blocked_refund": format!("{} {} to {}", ev.coins[0], "", w.name_of(&ev.to)), "close": "still happened", "everything_else": "identical to the unblocked run", "orphaned_in_farm_manager": ev.coins[0].to_string()}));
                } else {
                    rep.failed("tolerated_refund_failure", None, errs.join("; "), witness(json!({"failed_call": k, "kind": what})));
                }
                continue;
            }
            if out.is_ok() {
                rep.failed("kth_failure", None, format!("{} still succeeded with a failure injected at internal call #{k} ({what})", s.op.kind()), witness(json!({"calls": calls.iter().map(|c| format!("{c:?}")).collect::<Vec<_>>(), "k": k})));
            } else if *w.state() != s.pre_snap.storage {
                let a = &s.pre_snap.storage.data;
                let b = &w.state().data;
                let diff: Vec<String> = a.keys().chain(b.keys()).filter(|k| a.get(*k) != b.get(*k)).map(|k| String::from_utf8_lossy(k).chars().filter(|c| !c.is_control()).collect::<String>()).collect::<std::collections::BTreeSet<_>>().into_iter().take(6).collect();
                rep.failed("kth_failure", None, format!("{} failed at internal call #{k} ({what}) but left changes behind: {:?}", s.op.kind(), diff), witness(json!({"calls": calls.iter().map(|c| format!("{c:?}")).collect::<Vec<_>>(), "k": k})));
            } else {
                rep.held("kth_failure", abs, || json!({"op": s.op.kind(), "internal_calls": calls.len(), "failed_call": format!("#{k} {what}"), "result": "rejected, chain state identical"}));
            }
        }
        w.restore(&post_snap);
    }
}
