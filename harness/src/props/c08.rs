//! C08 — locked LP can only return to its owner, only after unlocking, and in full.

use std::collections::{BTreeMap, BTreeSet};

use cosmwasm_std::{coin, Addr};
use mantra_dex_std::farm_manager as fm;
use mantra_dex_std::farm_manager::{Position, PositionAction};
use mantra_dex_std::pool_manager as pm;
use rand::rngs::StdRng;
use rand::seq::SliceRandom;
use rand::{Rng, SeedableRng};
use serde_json::json;

use crate::ops::{witness, Monitor, Op, Step};
use crate::report::{hash_of, Reporter};
use crate::wfarm::{claim_op, fobserve, pos_op};
use crate::world::{BankKind, World};
use crate::wpool::provide_op;

pub struct C08 {
    rng: StdRng,
    ids_seen: BTreeSet<String>,
    pub probe_every: usize,
}

impl C08 {
    pub fn new(seed: u64) -> C08 {
        C08 {
            rng: StdRng::seed_from_u64(seed ^ 0xC08),
            ids_seen: BTreeSet::new(),
            probe_every: 25,
        }
    }
}

fn changed(pre: &BTreeMap<String, Position>, post: &BTreeMap<String, Position>) -> Vec<String> {
    let mut v = vec![];
    for (id, p) in post {
        if pre.get(id) != Some(p) {
            v.push(id.clone());
        }
    }
    for id in pre.keys() {
        if !post.contains_key(id) {
            v.push(id.clone());
        }
    }
    v
}

impl C08 {
    /// forked: every action on one existing position from every account; timing around unlock
    fn probe(&mut self, w: &mut World, s: &Step, rep: &mut Reporter) {
        let pos = match s.fpost.positions.values().collect::<Vec<_>>().choose(&mut self.rng) {
            Some(p) => (*p).clone(),
            None => return,
        };
        let snap = w.snapshot();
        let owner = pos.receiver.clone();
        let lp = pos.lp_asset.denom.clone();
        let mut senders: Vec<Addr> = w.users.clone();
        // the pool manager's own account too: it is a delegate for creating and topping up, never
        // for closing or withdrawing
        senders.extend([w.owner.clone(), w.hostile.clone(), w.fc.clone(), w.pm.clone(), w.fm.clone()]);
        // farm owners are interesting strangers too
        for f in s.fpost.farms.values() {
            if !senders.contains(&f.owner) {
                senders.push(f.owner.clone());
            }
        }
        // the owner may have pending rewards that block a close: claim first (not part of the test)
        let _ = w.apply(&claim_op(&owner, None));
        let base = w.snapshot();
        for sender in &senders {
            let is_owner = *sender == owner;
            let is_pm = *sender == w.pm;
            let role = if is_owner { "owner" } else if is_pm { "the pool manager account" } else if *sender == w.fm { "the farm manager account" } else if *sender == w.owner { "contract owner" } else if s.fpost.farms.values().any(|f| f.owner == *sender) { "a farm owner" } else { "stranger" };
            // close
            if pos.open {
                w.restore(&base);
                let out = w.apply(&pos_op(sender, PositionAction::Close { identifier: pos.identifier.clone(), lp_asset: None }, vec![]));
                if out.is_ok() && !is_owner {
                    rep.failed("authz", None, format!("{role} closed {}'s position {}", w.name_of(owner.as_str()), pos.identifier), witness(json!({"position": format!("{pos}")})));
                } else {
                    rep.held("authz", hash_of(&("close", role, out.is_ok())), || json!({"action": "close", "by": role, "result": out.short()}));
                }
            }
            // withdraw, normal and emergency
            for em in [None, Some(true)] {
                w.restore(&base);
                let out = w.apply(&pos_op(sender, PositionAction::Withdraw { identifier: pos.identifier.clone(), emergency_unlock: em }, vec![]));
                if out.is_ok() && !is_owner {
                    rep.failed("authz", None, format!("{role} withdrew {}'s position {} (emergency: {em:?})", w.name_of(owner.as_str()), pos.identifier), witness(json!({"position": format!("{pos}")})));
                } else {
                    rep.held("authz", hash_of(&("withdraw", em.is_some(), role, out.is_ok())), || json!({"action": "withdraw", "emergency": em, "by": role, "result": out.short()}));
                }
            }
            // top up
            if pos.open && w.balance(sender, &lp) > 10 {
                w.restore(&base);
                let out = w.apply(&pos_op(sender, PositionAction::Expand { identifier: pos.identifier.clone() }, vec![coin(7, lp.clone())]));
                if out.is_ok() != (is_owner || is_pm) && !((is_owner || is_pm) && !out.is_ok()) {
                    rep.failed("authz", None, format!("{role} topped up {}'s position {}", w.name_of(owner.as_str()), pos.identifier), witness(json!({"position": format!("{pos}")})));
                } else {
                    rep.held("authz", hash_of(&("expand", role, out.is_ok())), || json!({"action": "expand", "by": role, "result": out.short()}));
                }
                // create for somebody else directly
                w.restore(&base);
                let out = w.apply(&pos_op(sender, PositionAction::Create { identifier: None, unlocking_duration: pos.unlocking_duration, receiver: Some(owner.to_string()) }, vec![coin(7, lp.clone())]));
                if out.is_ok() && !is_owner && !is_pm {
                    rep.failed("authz", None, format!("{role} created a position for {}", w.name_of(owner.as_str())), witness(json!({})));
                } else {
                    rep.held("authz", hash_of(&("create_for", role, out.is_ok())), || json!({"action": "create with receiver = someone else", "by": role, "result": out.short()}));
                }
            }
        }
        // the pool manager as delegate: a locked deposit naming this position - as stored and as a
        // caller would type it (without the prefix the farm manager adds) - by its owner and by
        // others, through the position's own pool or any other pool
        {
            let own_pool = s.post.pools.values().find(|p| p.info.lp_denom == lp && p.funded()).cloned();
            let any_pool = s.post.pools.values().filter(|p| p.funded() && p.info.status.deposits_enabled).collect::<Vec<_>>().choose(&mut self.rng).map(|p| (*p).clone());
            let bare = pos.identifier.trim_start_matches("u-").trim_start_matches("p-").to_string();
            let mut names = vec![pos.identifier.clone()];
            if bare != pos.identifier {
                names.push(bare);
            }
            for p in own_pool.iter().chain(any_pool.iter()) {
                for name in &names {
                    for sender in senders.iter().take(4).chain([&owner]) {
                        w.restore(&base);
                        let funds: Vec<_> = p.info.assets.iter().map(|c| coin((c.amount.u128() / 1_000_000).max(10), c.denom.clone())).collect();
                        let before = fobserve(w).positions.get(&pos.identifier).cloned();
                        let out = w.apply(&provide_op(sender, &p.info.pool_identifier, funds, None, None, None, Some(pos.unlocking_duration), Some(name.clone())));
                        let after = fobserve(w).positions.get(&pos.identifier).cloned();
                        let changed = before != after;
                        if changed && p.info.lp_denom != lp {
                            rep.failed("authz", None, format!("a locked deposit into pool {} (another LP token) changed position {} of {} (sender {})", p.info.pool_identifier, pos.identifier, w.name_of(owner.as_str()), w.name_of(sender.as_str())), witness(json!({"before": before.map(|b| format!("{b}")), "after": after.map(|a| format!("{a}"))})));
                        } else if changed && *sender != owner {
                            rep.failed("authz", None, format!("{} changed {}'s position {} through a locked deposit naming '{name}'", w.name_of(sender.as_str()), w.name_of(owner.as_str()), pos.identifier), witness(json!({"before": before.map(|b| format!("{b}")), "after": after.map(|a| format!("{a}"))})));
                        } else {
                            rep.held("authz", hash_of(&("via_pm", *sender == owner, out.is_ok(), name == &pos.identifier, p.info.lp_denom == lp)), || json!({"action": "locked deposit naming the position via the pool manager", "named_as_stored": name == &pos.identifier, "own_pool": p.info.lp_denom == lp, "by_owner": *sender == owner, "result": out.short()}));
                        }
                    }
                }
            }
        }
        // timing around the unlock instant
        w.restore(&base);
        let closed = if pos.open {
            let out = w.apply(&pos_op(&owner, PositionAction::Close { identifier: pos.identifier.clone(), lp_asset: None }, vec![]));
            if out.is_ok() {
                fobserve(w).positions.get(&pos.identifier).cloned()
            } else {
                None
            }
        } else {
            Some(pos.clone())
        };
        let after_close = w.snapshot();
        if pos.open {
            // an open position can never be withdrawn normally
            w.restore(&base);
            let out = w.apply(&pos_op(&owner, PositionAction::Withdraw { identifier: pos.identifier.clone(), emergency_unlock: None }, vec![]));
            if out.is_ok() {
                rep.failed("timing", None, "normal withdrawal of an open position succeeded".into(), witness(json!({"position": format!("{pos}")})));
            } else {
                rep.held("timing", hash_of(&"open"), || json!({"open_position": "normal withdrawal refused"}));
            }
        }
        if let Some(cp) = closed {
            let exp = cp.expiring_at.unwrap_or(0);
            for (dt, label) in [(-1i64, "one second before"), (0, "at"), (1, "one second after")] {
                let t = exp as i64 + dt;
                if t < w.now() as i64 && pos.open {
                    continue;
                }
                w.restore(&after_close);
                if (t as u64) < w.now() {
                    continue;
                }
                w.set_time(t as u64);
                let b0 = w.balance(&owner, &lp);
                let out = w.apply(&pos_op(&owner, PositionAction::Withdraw { identifier: cp.identifier.clone(), emergency_unlock: None }, vec![]));
                let got = w.balance(&owner, &lp) - b0;
                let should = dt >= 0;
                if out.is_ok() != should {
                    rep.failed("timing", None, format!("normal withdrawal {label} the unlock instant ({exp}): accepted={}", out.is_ok()), witness(json!({"position": format!("{cp}"), "time": t})));
                } else if out.is_ok() && got != cp.lp_asset.amount.u128() {
                    rep.failed("exact_return", None, format!("withdrawal paid {got} of {}", cp.lp_asset.amount), witness(json!({"position": format!("{cp}")})));
                } else {
                    rep.held("timing", hash_of(&(label, pos.open)), || json!({"unlock_instant": exp, "withdraw": label, "accepted": out.is_ok()}));
                }
            }
            // an unlocked position returns to its owner whatever the epoch manager says: with the
            // genesis re-scheduled into the future there is no current epoch, and a plain
            // withdrawal does not need one
            w.restore(&after_close);
            let t = exp.max(w.now()) + 1;
            w.set_time(t);
            let admin = w.owner.clone();
            let c = w.em.clone();
            let r = w.exec(&admin, &c, &mantra_dex_std::epoch_manager::ExecuteMsg::UpdateConfig { epoch_config: Some(mantra_dex_std::epoch_manager::EpochConfig { duration: cosmwasm_std::Uint64::new(w.cfg.epoch_duration), genesis_epoch: cosmwasm_std::Uint64::new(t + 10 * 86_400) }) }, &[]);
            if r.is_ok() && fobserve(w).epoch.is_none() {
                let b0 = w.balance(&owner, &lp);
                let out = w.apply(&pos_op(&owner, PositionAction::Withdraw { identifier: cp.identifier.clone(), emergency_unlock: None }, vec![]));
                let got = w.balance(&owner, &lp) - b0;
                if !out.is_ok() {
                    rep.failed("timing", None, format!("normal withdrawal of an unlocked position refused while the epoch manager reports no current epoch: {}", out.short()), witness(json!({"position": format!("{cp}"), "time": t})));
                } else if got != cp.lp_asset.amount.u128() {
                    rep.failed("exact_return", None, format!("withdrawal paid {got} of {}", cp.lp_asset.amount), witness(json!({"position": format!("{cp}")})));
                } else {
                    rep.held("timing", hash_of(&("no_current_epoch", pos.open)), || json!({"unlock_instant": exp, "withdraw": "after unlocking, while the epoch manager reports no current epoch", "accepted": true}));
                }
            }
        }
        w.restore(&snap);
    }
}

impl Monitor for C08 {
    fn step(&mut self, w: &mut World, s: &Step, rep: &mut Reporter) {
        let pre = &s.fpre.positions;
        let post = &s.fpost.positions;
        let ch = changed(pre, post);
        // identifiers: unique for ever, generated and explicit never collide
        for id in post.keys() {
            if !pre.contains_key(id) {
                // generated identifiers come from a counter and are never issued again; an
                // explicit identifier becomes free again once its position has been withdrawn
                if !self.ids_seen.insert(id.clone()) && id.starts_with("p-") {
                    rep.failed("ids_unique", None, format!("position identifier {id} issued twice"), witness(json!({"id": id})));
                } else if !(id.starts_with("p-") || id.starts_with("u-")) {
                    rep.failed("ids_unique", None, format!("position identifier {id} lacks a prefix"), witness(json!({"id": id})));
                } else {
                    rep.held("ids_unique", hash_of(&(id.starts_with("p-"), s.op.kind())), || json!({"new_position": id, "by": s.op.kind()}));
                }
            }
        }
        // who may change whose position
        let (actor, via_pm): (Option<&Addr>, bool) = match s.op {
            Op::Fm { sender, msg: fm::ExecuteMsg::ManagePosition { .. }, .. } => (Some(sender), false),
            Op::Pm { sender, msg: pm::ExecuteMsg::ProvideLiquidity { unlocking_duration: Some(_), .. }, .. } => (Some(sender), true),
            _ => (None, false),
        };
        for id in &ch {
            let owner = post.get(id).or(pre.get(id)).map(|p| p.receiver.clone()).unwrap();
            // a position that existed before must not end up in somebody else's hands or be
            // replaced by somebody else's position under the same identifier
            if let (Some(b), Some(a)) = (pre.get(id), actor) {
                if b.receiver != *a {
                    rep.failed("non_interference", None, format!("position {id} of {} was changed or replaced by a {} from {}", w.name_of(b.receiver.as_str()), s.op.kind(), w.name_of(a.as_str())), witness(json!({"before": format!("{b}"), "after": post.get(id).map(|p| format!("{p}"))})));
                    continue;
                }
            }
            match actor {
                Some(a) if *a == owner => {
                    rep.held("non_interference", hash_of(&(s.op.kind(), via_pm)), || json!({"position": id, "changed_by_its_owner_via": s.op.kind()}));
                }
                Some(a) => rep.failed("non_interference", None, format!("position {id} of {} changed by a {} from {}", w.name_of(owner.as_str()), s.op.kind(), w.name_of(a.as_str())), witness(json!({"before": pre.get(id).map(|p| format!("{p}")), "after": post.get(id).map(|p| format!("{p}"))}))),
                None => rep.failed("non_interference", None, format!("position {id} changed by a {}", s.op.kind()), witness(json!({"before": pre.get(id).map(|p| format!("{p}")), "after": post.get(id).map(|p| format!("{p}"))}))),
            }
        }
        if ch.is_empty() && s.out.is_ok() {
            rep.held("non_interference", hash_of(&(s.op.kind(), "none")), || json!({"after": s.op.kind(), "positions_unchanged": post.len()}));
        }

        if let (Op::Fm { sender, msg: fm::ExecuteMsg::ManagePosition { action }, funds }, true) = (s.op, s.out.is_ok()) {
            match action {
                PositionAction::Create { receiver, .. } => {
                    if let Some(r) = receiver {
                        if r != sender.as_str() && *sender != w.pm {
                            rep.failed("authz", None, "position created for someone else by a non-delegate".into(), witness(json!({})));
                        }
                    }
                    // creating never touches what is already recorded, for anybody
                    for (id, b) in pre.iter() {
                        if post.get(id) != Some(b) {
                            rep.failed("create_records", None, format!("creating a position changed the existing position {id}"), witness(json!({"before": format!("{b}"), "after": post.get(id).map(|p| format!("{p}"))})));
                        }
                    }
                    let newp: Vec<&Position> = post.iter().filter(|(id, _)| !pre.contains_key(*id)).map(|(_, p)| p).collect();
                    if newp.len() == 1 && newp[0].open && newp[0].lp_asset == funds[0] && newp[0].receiver == *sender {
                        rep.held("create_records", hash_of(&(funds[0].amount.u128().min(1000), newp[0].unlocking_duration / 1_000_000)), || json!({"position": format!("{}", newp[0])}));
                    } else if receiver.is_none() {
                        rep.failed("create_records", None, "created position does not record the attached LP for the sender".into(), witness(json!({"new": newp.iter().map(|p| format!("{p}")).collect::<Vec<_>>()})));
                    }
                }
                PositionAction::Expand { identifier } => {
                    if let (Some(a), Some(b)) = (pre.get(identifier), post.get(identifier)) {
                        let ok = (a.receiver == *sender) && b.lp_asset.amount == a.lp_asset.amount + funds[0].amount && b.open && b.unlocking_duration == a.unlocking_duration && b.receiver == a.receiver;
                        if ok {
                            rep.held("expand_records", hash_of(&(funds[0].amount.u128().min(100))), || json!({"position": identifier, "added": funds[0].to_string()}));
                        } else {
                            rep.failed("expand_records", None, format!("top-up of {identifier} by {} recorded wrongly", w.name_of(sender.as_str())), witness(json!({"before": format!("{a}"), "after": format!("{b}")})));
                        }
                    }
                }
                PositionAction::Close { identifier, lp_asset } => {
                    let a = match pre.get(identifier) {
                        Some(a) => a,
                        None => return,
                    };
                    if a.receiver != *sender {
                        rep.failed("authz", None, format!("{} closed a position of {}", w.name_of(sender.as_str()), w.name_of(a.receiver.as_str())), witness(json!({})));
                    }
                    // no LP created or lost: the owner's recorded total for that denom is unchanged
                    let tot = |m: &BTreeMap<String, Position>| -> u128 { m.values().filter(|p| p.receiver == a.receiver && p.lp_asset.denom == a.lp_asset.denom).map(|p| p.lp_asset.amount.u128()).sum() };
                    let partial = lp_asset.as_ref().map(|c| c.amount < a.lp_asset.amount).unwrap_or(false);
                    let mut errs = vec![];
                    if tot(pre) != tot(post) {
                        errs.push(format!("recorded LP of the owner changed {} -> {}", tot(pre), tot(post)));
                    }
                    let exp_at = s.fpre.time + a.unlocking_duration;
                    if partial {
                        let part = lp_asset.as_ref().unwrap();
                        let newp: Vec<&Position> = post.iter().filter(|(id, _)| !pre.contains_key(*id)).map(|(_, p)| p).collect();
                        let rest = post.get(identifier);
                        if newp.len() != 1 || newp[0].open || newp[0].receiver != a.receiver || newp[0].unlocking_duration != a.unlocking_duration || newp[0].expiring_at != Some(exp_at) || newp[0].lp_asset != *part {
                            errs.push("the split-off part is not a closed position of the same owner/duration expiring at close time + duration".into());
                        }
                        match rest {
                            Some(r) if r.open && r.lp_asset.amount == a.lp_asset.amount - part.amount && r.expiring_at.is_none() => {}
                            _ => errs.push("the remainder is not the open rest of the position".into()),
                        }
                    } else {
                        match post.get(identifier) {
                            Some(r) if !r.open && r.expiring_at == Some(exp_at) && r.lp_asset == a.lp_asset && r.receiver == a.receiver => {}
                            _ => errs.push("closed position does not expire at close time + unlocking duration with the same amount".into()),
                        }
                    }
                    if !s.out.log().is_empty() {
                        errs.push("closing moved tokens".into());
                    }
                    if errs.is_empty() {
                        rep.held("split_conservation", hash_of(&(partial, a.lp_asset.amount.u128().min(50))), || json!({"position": identifier, "partial": partial, "owner_total_unchanged": tot(post).to_string()}));
                    } else {
                        rep.failed("split_conservation", None, errs.join("; "), witness(json!({"before": format!("{a}")})));
                    }
                }
                PositionAction::Withdraw { identifier, emergency_unlock } => {
                    let a = match pre.get(identifier) {
                        Some(a) => a,
                        None => return,
                    };
                    if a.receiver != *sender {
                        rep.failed("authz", None, format!("{} withdrew a position of {}", w.name_of(sender.as_str()), w.name_of(a.receiver.as_str())), witness(json!({})));
                    }
                    let emergency = emergency_unlock.unwrap_or(false) && !a.is_expired(s.fpre.time);
                    if !emergency {
                        let sends: Vec<_> = s.out.log().iter().filter(|e| e.kind == BankKind::Send).collect();
                        let ok = !a.open
                            && a.expiring_at.map(|e| e <= s.fpre.time).unwrap_or(false)
                            && sends.len() == 1
                            && sends[0].from == w.fm.as_str()
                            && sends[0].to == a.receiver.as_str()
                            && sends[0].coins == vec![a.lp_asset.clone()]
                            && !post.contains_key(identifier);
                        if ok {
                            rep.held("exact_return", hash_of(&(s.fpre.time - a.expiring_at.unwrap_or(0) == 0, a.lp_asset.amount.u128().min(50))), || json!({"position": format!("{a}"), "withdrawn_at": s.fpre.time, "paid": a.lp_asset.to_string()}));
                        } else {
                            rep.failed("exact_return", None, format!("normal withdrawal of {identifier} (open={}, expiring_at={:?}, now={}) did not pay exactly the recorded amount to the owner once", a.open, a.expiring_at, s.fpre.time), witness(json!({"position": format!("{a}"), "movements": s.out.log().iter().map(|e| format!("{e:?}")).collect::<Vec<_>>()})));
                        }
                    }
                }
            }
        }
        if s.idx % self.probe_every == self.probe_every - 1 {
            self.probe(w, s, rep);
        }
        let _ = self.rng.gen_range(0..2);
    }
}
