//! C15 — only authorised parties can perform privileged actions: the complete
//! (contract x privileged message x sender role x ownership state x funds) matrix, executed.

use std::collections::BTreeSet;

use cosmwasm_std::{coin, Addr, Coin, Decimal, Uint64};
use cw_ownable::{Action, Expiration};
use mantra_dex_std::epoch_manager as em;
use mantra_dex_std::farm_manager as fm;
use mantra_dex_std::farm_manager::{FarmAction, FarmParams, PositionAction};
use mantra_dex_std::fee_collector as fc;
use mantra_dex_std::pool_manager as pm;
use mantra_dex_std::pool_manager::PoolType;
use serde_json::json;

use crate::farmobs::{all_farms, all_positions};
use crate::ops::{set_ctx, witness, Op};
use crate::report::{hash_of, Reporter};
use crate::wfarm::{farm_funds, farm_op, fm_config_op, pos_op};
use crate::world::{Snap, World, WorldCfg};
use crate::wpool::{create_pool_op, pool_fee, provide_op};
use crate::RunCfg;

#[derive(Clone, Copy, PartialEq, Eq, Debug, Hash)]
enum Who {
    Owner,
    Pending,
    Former,
    FarmOwner,
    PositionOwner,
    PoolManager,
    FarmManager,
    Stranger,
    ContractAccount,
}

const ROLES: [Who; 9] = [Who::Owner, Who::Pending, Who::Former, Who::FarmOwner, Who::PositionOwner, Who::PoolManager, Who::FarmManager, Who::Stranger, Who::ContractAccount];

#[derive(Clone, Copy, PartialEq, Eq, Debug, Hash)]
enum OwnState {
    Initial,
    TransferPending,
    TransferPendingExpired,
    Transferred,
    Renounced,
}

const STATES: [OwnState; 5] = [OwnState::Initial, OwnState::TransferPending, OwnState::TransferPendingExpired, OwnState::Transferred, OwnState::Renounced];

#[derive(Clone, Copy, PartialEq, Eq, Debug, Hash)]
enum Target {
    Pm,
    Fm,
    Em,
    Fc,
}

/// what the statement allows
#[derive(Clone, Copy, PartialEq, Eq, Debug, Hash)]
enum Rule {
    OwnerOnlyNonPayable,
    AcceptOwnership,
    FarmOwnerOnly,
    FarmOwnerOrContractOwner,
    PoolManagerOrReceiver,
    PositionOwnerOrPoolManager,
    PositionOwnerOnly,
}

struct Cell {
    name: String,
    target: Target,
    rule: Rule,
    /// funds the message legitimately needs (farm expansion, position top-up)
    needs: Vec<Coin>,
    build: Box<dyn Fn(&Ctx) -> Op>,
    /// storage key fragments that may change when the cell is accepted
    may_touch: Vec<&'static str>,
}

struct Ctx {
    sender: Addr,
    funds: Vec<Coin>,
    pm: Addr,
    fm: Addr,
    em: Addr,
    fc: Addr,
    pending: Addr,
    position_owner: Addr,
    lp: String,
    farm_id: String,
    position_id: String,
    reward: Coin,
    now: u64,
}

fn own(action: Action) -> Action {
    action
}

fn cells() -> Vec<Cell> {
    let mut v: Vec<Cell> = vec![];
    macro_rules! cell {
        ($name:expr, $target:expr, $rule:expr, $needs:expr, $touch:expr, $b:expr) => {
            v.push(Cell { name: $name.to_string(), target: $target, rule: $rule, needs: $needs, build: Box::new($b), may_touch: $touch });
        };
    }
    // ---- pool manager
    cell!("pm.UpdateConfig{fee_collector_addr}", Target::Pm, Rule::OwnerOnlyNonPayable, vec![], vec!["config"], |c: &Ctx| Op::Pm {
        sender: c.sender.clone(),
        msg: pm::ExecuteMsg::UpdateConfig { fee_collector_addr: Some(c.pending.to_string()), farm_manager_addr: None, pool_creation_fee: None, feature_toggle: None },
        funds: c.funds.clone()
    });
    cell!("pm.UpdateConfig{farm_manager_addr}", Target::Pm, Rule::OwnerOnlyNonPayable, vec![], vec!["config"], |c: &Ctx| Op::Pm {
        sender: c.sender.clone(),
        msg: pm::ExecuteMsg::UpdateConfig { fee_collector_addr: None, farm_manager_addr: Some(c.pending.to_string()), pool_creation_fee: None, feature_toggle: None },
        funds: c.funds.clone()
    });
    cell!("pm.UpdateConfig{pool_creation_fee}", Target::Pm, Rule::OwnerOnlyNonPayable, vec![], vec!["config"], |c: &Ctx| Op::Pm {
        sender: c.sender.clone(),
        msg: pm::ExecuteMsg::UpdateConfig { fee_collector_addr: None, farm_manager_addr: None, pool_creation_fee: Some(coin(77, "uusdc")), feature_toggle: None },
        funds: c.funds.clone()
    });
    for (k, nm) in ["swaps", "deposits", "withdrawals"].iter().enumerate() {
        cell!(format!("pm.UpdateConfig{{feature_toggle.{nm}}}"), Target::Pm, Rule::OwnerOnlyNonPayable, vec![], vec!["config", "pools"], move |c: &Ctx| Op::Pm {
            sender: c.sender.clone(),
            msg: pm::ExecuteMsg::UpdateConfig {
                fee_collector_addr: None,
                farm_manager_addr: None,
                pool_creation_fee: None,
                feature_toggle: Some(pm::FeatureToggle {
                    pool_identifier: "o.a".into(),
                    swaps_enabled: if k == 0 { Some(false) } else { None },
                    deposits_enabled: if k == 1 { Some(false) } else { None },
                    withdrawals_enabled: if k == 2 { Some(false) } else { None },
                }),
            },
            funds: c.funds.clone()
        });
    }
    // ---- ownership actions on all four contracts
    for (t, tn) in [(Target::Pm, "pm"), (Target::Fm, "fm"), (Target::Em, "em"), (Target::Fc, "fc")] {
        let mk = move |c: &Ctx, a: Action| -> Op {
            match t {
                Target::Pm => Op::Pm { sender: c.sender.clone(), msg: pm::ExecuteMsg::UpdateOwnership(a), funds: c.funds.clone() },
                Target::Fm => Op::Fm { sender: c.sender.clone(), msg: fm::ExecuteMsg::UpdateOwnership(a), funds: c.funds.clone() },
                Target::Em => Op::Em { sender: c.sender.clone(), msg: em::ExecuteMsg::UpdateOwnership(a), funds: c.funds.clone() },
                Target::Fc => Op::Fc { sender: c.sender.clone(), msg: fc::ExecuteMsg::UpdateOwnership(a), funds: c.funds.clone() },
            }
        };
        cell!(format!("{tn}.UpdateOwnership::TransferOwnership"), t, Rule::OwnerOnlyNonPayable, vec![], vec!["ownership"], move |c: &Ctx| mk(c, own(Action::TransferOwnership { new_owner: c.position_owner.to_string(), expiry: None })));
        cell!(format!("{tn}.UpdateOwnership::AcceptOwnership"), t, Rule::AcceptOwnership, vec![], vec!["ownership"], move |c: &Ctx| mk(c, own(Action::AcceptOwnership)));
        cell!(format!("{tn}.UpdateOwnership::RenounceOwnership"), t, Rule::OwnerOnlyNonPayable, vec![], vec!["ownership"], move |c: &Ctx| mk(c, own(Action::RenounceOwnership)));
    }
    // ---- farm manager configuration, one field at a time
    let fm_fields: Vec<(&str, Box<dyn Fn(&Ctx, &mut crate::wfarm::FmCfgPatch) + Send + Sync>)> = vec![
        ("fee_collector_addr", Box::new(|c, p| p.fee_collector_addr = Some(c.pending.to_string()))),
        ("epoch_manager_addr", Box::new(|c, p| p.epoch_manager_addr = Some(c.em.to_string()))),
        ("pool_manager_addr", Box::new(|c, p| p.pool_manager_addr = Some(c.pm.to_string()))),
        ("create_farm_fee", Box::new(|_, p| p.create_farm_fee = Some(coin(5, "uusdt")))),
        ("max_concurrent_farms", Box::new(|_, p| p.max_concurrent_farms = Some(9))),
        ("max_farm_epoch_buffer", Box::new(|_, p| p.max_farm_epoch_buffer = Some(30))),
        ("min_unlocking_duration", Box::new(|_, p| p.min_unlocking_duration = Some(90_000))),
        ("max_unlocking_duration", Box::new(|_, p| p.max_unlocking_duration = Some(30_000_000))),
        ("farm_expiration_time", Box::new(|_, p| p.farm_expiration_time = Some(3_000_000))),
        ("emergency_unlock_penalty", Box::new(|_, p| p.emergency_unlock_penalty = Some(Decimal::percent(7)))),
    ];
    for (nm, f) in fm_fields {
        cell!(format!("fm.UpdateConfig{{{nm}}}"), Target::Fm, Rule::OwnerOnlyNonPayable, vec![], vec!["config"], move |c: &Ctx| {
            let mut op = fm_config_op(&c.sender, |p| f(c, p));
            if let Op::Fm { funds, .. } = &mut op {
                *funds = c.funds.clone();
            }
            op
        });
    }
    // ---- epoch manager configuration
    cell!("em.UpdateConfig{epoch_config}", Target::Em, Rule::OwnerOnlyNonPayable, vec![], vec!["config"], |c: &Ctx| Op::Em {
        sender: c.sender.clone(),
        msg: em::ExecuteMsg::UpdateConfig { epoch_config: Some(em::EpochConfig { duration: Uint64::new(90_000), genesis_epoch: Uint64::new(c.now + 10) }) },
        funds: c.funds.clone()
    });
    // ---- farms and positions
    cell!("fm.ManageFarm::Expand", Target::Fm, Rule::FarmOwnerOnly, vec![coin(2_000, "uusdc")], vec!["farms"], |c: &Ctx| {
        let mut f = c.funds.clone();
        f.retain(|x| x.denom != "uusdc");
        f.push(coin(2_000, "uusdc"));
        f.sort_by(|a, b| a.denom.cmp(&b.denom));
        farm_op(&c.sender, FarmAction::Expand { params: FarmParams { lp_denom: c.lp.clone(), start_epoch: None, preliminary_end_epoch: None, curve: None, farm_asset: coin(2_000, "uusdc"), farm_identifier: Some(c.farm_id.clone()) } }, f)
    });
    cell!("fm.ManageFarm::Close", Target::Fm, Rule::FarmOwnerOrContractOwner, vec![], vec!["farms"], |c: &Ctx| farm_op(&c.sender, FarmAction::Close { farm_identifier: c.farm_id.clone() }, c.funds.clone()));
    cell!("fm.ManagePosition::Create{receiver: another account}", Target::Fm, Rule::PoolManagerOrReceiver, vec![coin(50, "LP")], vec!["positions", "lp_weight_history", "position_id_counter"], |c: &Ctx| {
        let mut f = c.funds.clone();
        f.push(coin(50, c.lp.clone()));
        f.sort_by(|a, b| a.denom.cmp(&b.denom));
        pos_op(&c.sender, PositionAction::Create { identifier: None, unlocking_duration: 86_400, receiver: Some(c.position_owner.to_string()) }, f)
    });
    cell!("fm.ManagePosition::Expand", Target::Fm, Rule::PositionOwnerOrPoolManager, vec![coin(50, "LP")], vec!["positions", "lp_weight_history"], |c: &Ctx| {
        let mut f = c.funds.clone();
        f.push(coin(50, c.lp.clone()));
        f.sort_by(|a, b| a.denom.cmp(&b.denom));
        pos_op(&c.sender, PositionAction::Expand { identifier: c.position_id.clone() }, f)
    });
    cell!("fm.ManagePosition::Close", Target::Fm, Rule::PositionOwnerOnly, vec![], vec!["positions", "lp_weight_history", "last_claimed_epoch", "position_id_counter"], |c: &Ctx| pos_op(&c.sender, PositionAction::Close { identifier: c.position_id.clone(), lp_asset: None }, c.funds.clone()));
    cell!("fm.ManagePosition::Withdraw", Target::Fm, Rule::PositionOwnerOnly, vec![], vec!["positions", "lp_weight_history", "last_claimed_epoch"], |c: &Ctx| pos_op(&c.sender, PositionAction::Withdraw { identifier: c.position_id.clone(), emergency_unlock: Some(true) }, c.funds.clone()));
    let _ = reward_unused;
    v
}

#[allow(non_upper_case_globals)]
const reward_unused: () = ();

pub fn run_matrix(cfg: &RunCfg) -> Reporter {
    let mut rep = Reporter::new("C15");
    set_ctx(format!("workload=W-admin (complete matrix) seed={}", cfg.seed));
    let mut w = World::new(WorldCfg::default());
    let o = w.owner.clone();
    let pending = w.users[0].clone();
    let farm_owner = w.users[1].clone();
    let position_owner = w.users[2].clone();
    let stranger = w.users[3].clone();
    // prepared state: a pool, LP everywhere, a running farm, an open position
    let op = create_pool_op(&w, &stranger, &["uom", "uusdc"], PoolType::ConstantProduct, pool_fee(5, 20, 0, &[]), Some("a"));
    assert!(w.apply(&op).is_ok());
    let lp = w.lp_denom("o.a");
    for u in [o.clone(), pending.clone(), farm_owner.clone(), position_owner.clone(), stranger.clone(), w.hostile.clone()] {
        assert!(w.apply(&provide_op(&u, "o.a", vec![coin(5_000_000_000, "uom"), coin(1_000_000_000, "uusdc")], None, None, None, None, None)).is_ok());
    }
    // the contracts' own accounts act as senders too: give them something to attach
    for a in [w.pm.clone(), w.fm.clone()] {
        for c in [coin(1_000_000, "uom"), coin(1_000_000, "uusdc"), coin(1_000_000, lp.clone())] {
            if c.denom == lp {
                assert!(w.bank_send(&stranger, &a, &[coin(1_000, lp.clone())]).is_ok());
            } else {
                w.mint_to(&a, c);
            }
        }
    }
    let reward = coin(20_000, "uusdc");
    assert!(w.apply(&farm_op(&farm_owner, FarmAction::Create { params: FarmParams { lp_denom: lp.clone(), start_epoch: Some(1), preliminary_end_epoch: Some(11), curve: None, farm_asset: reward.clone(), farm_identifier: Some("f".into()) } }, farm_funds(&reward, &w.cfg.farm_fee))).is_ok());
    assert!(w.apply(&pos_op(&position_owner, PositionAction::Create { identifier: Some("p".into()), unlocking_duration: 86_400, receiver: None }, vec![coin(10_000, lp.clone())])).is_ok());
    w.advance(2 * 86_400);
    // closing a position requires its rewards to be claimed first; not part of the matrix
    assert!(w.apply(&crate::wfarm::claim_op(&position_owner, None)).is_ok());
    let prepared = w.snapshot();
    let all = cells();
    let contracts = [(Target::Pm, w.pm.clone()), (Target::Fm, w.fm.clone()), (Target::Em, w.em.clone()), (Target::Fc, w.fc.clone())];

    for st in STATES {
        // bring all four contracts into the ownership state
        w.restore(&prepared);
        let mut ok = true;
        let exec_own = |w: &mut World, t: Target, sender: &Addr, a: Action| -> bool {
            let op = match t {
                Target::Pm => Op::Pm { sender: sender.clone(), msg: pm::ExecuteMsg::UpdateOwnership(a), funds: vec![] },
                Target::Fm => Op::Fm { sender: sender.clone(), msg: fm::ExecuteMsg::UpdateOwnership(a), funds: vec![] },
                Target::Em => Op::Em { sender: sender.clone(), msg: em::ExecuteMsg::UpdateOwnership(a), funds: vec![] },
                Target::Fc => Op::Fc { sender: sender.clone(), msg: fc::ExecuteMsg::UpdateOwnership(a), funds: vec![] },
            };
            w.apply(&op).is_ok()
        };
        let now_s = w.now();
        for (t, _) in &contracts {
            match st {
                OwnState::Initial => {}
                OwnState::TransferPending => ok &= exec_own(&mut w, *t, &o, Action::TransferOwnership { new_owner: pending.to_string(), expiry: None }),
                OwnState::TransferPendingExpired => ok &= exec_own(&mut w, *t, &o, Action::TransferOwnership { new_owner: pending.to_string(), expiry: Some(Expiration::AtTime(cosmwasm_std::Timestamp::from_seconds(now_s + 100))) }),
                OwnState::Transferred => {
                    ok &= exec_own(&mut w, *t, &o, Action::TransferOwnership { new_owner: pending.to_string(), expiry: None });
                    ok &= exec_own(&mut w, *t, &pending, Action::AcceptOwnership);
                }
                OwnState::Renounced => ok &= exec_own(&mut w, *t, &o, Action::RenounceOwnership),
            }
        }
        if st == OwnState::TransferPendingExpired {
            w.advance(200);
        }
        if !ok {
            rep.failed("ownership_flow", None, format!("could not reach ownership state {st:?} by propose/accept/renounce"), witness(json!({"state": format!("{st:?}")})));
            continue;
        }
        rep.held("ownership_flow", hash_of(&st), || json!({"state_reached": format!("{st:?}")}));
        let state: Snap = w.snapshot();
        let (cur_owner, pending_now, former): (Option<Addr>, Option<Addr>, Option<Addr>) = match st {
            OwnState::Initial => (Some(o.clone()), None, None),
            OwnState::TransferPending | OwnState::TransferPendingExpired => (Some(o.clone()), Some(pending.clone()), None),
            OwnState::Transferred => (Some(pending.clone()), None, Some(o.clone())),
            OwnState::Renounced => (None, None, Some(o.clone())),
        };
        for cell in &all {
            for who in ROLES {
                // resolve the role to an account in this state
                let sender: Addr = match who {
                    Who::Owner => match &cur_owner {
                        Some(a) => a.clone(),
                        None => continue,
                    },
                    Who::Pending => match &pending_now {
                        Some(a) => a.clone(),
                        None => continue,
                    },
                    Who::Former => match &former {
                        Some(a) => a.clone(),
                        None => continue,
                    },
                    Who::FarmOwner => farm_owner.clone(),
                    Who::PositionOwner => position_owner.clone(),
                    Who::PoolManager => w.pm.clone(),
                    Who::FarmManager => w.fm.clone(),
                    Who::Stranger => stranger.clone(),
                    Who::ContractAccount => w.hostile.clone(),
                };
                for with_funds in [false, true] {
                    w.restore(&state);
                    let ctx = Ctx {
                        sender: sender.clone(),
                        funds: if with_funds { vec![coin(1, "uom")] } else { vec![] },
                        pm: w.pm.clone(),
                        fm: w.fm.clone(),
                        em: w.em.clone(),
                        fc: w.fc.clone(),
                        pending: pending.clone(),
                        position_owner: position_owner.clone(),
                        lp: lp.clone(),
                        farm_id: "m-f".into(),
                        position_id: "u-p".into(),
                        reward: reward.clone(),
                        now: w.now(),
                    };
                    let op = (cell.build)(&ctx);
                    let out = w.apply(&op);
                    let is_owner = cur_owner.as_ref() == Some(&sender);
                    let allowed = match cell.rule {
                        Rule::OwnerOnlyNonPayable => is_owner && !with_funds,
                        Rule::AcceptOwnership => st == OwnState::TransferPending && pending_now.as_ref() == Some(&sender) && !with_funds,
                        Rule::FarmOwnerOnly => sender == farm_owner && !with_funds,
                        Rule::FarmOwnerOrContractOwner => (sender == farm_owner || is_owner) && !with_funds,
                        Rule::PoolManagerOrReceiver => (sender == w.pm || sender == position_owner) && !with_funds,
                        Rule::PositionOwnerOrPoolManager => (sender == position_owner || sender == w.pm) && !with_funds,
                        Rule::PositionOwnerOnly => sender == position_owner && !with_funds,
                    };
                    let label = json!({"contract": format!("{:?}", cell.target), "message": cell.name, "sender_role": format!("{who:?}"), "ownership_state": format!("{st:?}"), "funds_attached": with_funds, "expected": if allowed {"accepted"} else {"rejected"}, "result": out.short()});
                    let abs = hash_of(&(&cell.name, who, st, with_funds));
                    if out.is_ok() != allowed {
                        rep.failed("matrix", None, format!("{} from {who:?} in state {st:?} (funds: {with_funds}): accepted={} expected={allowed}", cell.name, out.is_ok()), witness(label));
                        continue;
                    }
                    if !out.is_ok() {
                        if *w.state() == state.storage {
                            rep.held("matrix", abs, || label.clone());
                        } else {
                            rep.failed("rejected_is_noop", None, format!("rejected {} from {who:?} changed the state", cell.name), witness(label));
                        }
                        continue;
                    }
                    // accepted: only what the message names may change
                    let target_addr = contracts.iter().find(|(t, _)| *t == cell.target).map(|(_, a)| a.clone()).unwrap();
                    let mut foreign: BTreeSet<String> = BTreeSet::new();
                    let before = &state.storage.data;
                    let after = &w.state().data;
                    for k in before.keys().chain(after.keys()) {
                        if before.get(k) != after.get(k) {
                            let ks = String::from_utf8_lossy(k).to_string();
                            let in_target = ks.contains(target_addr.as_str());
                            let named = cell.may_touch.iter().any(|t| ks.contains(t));
                            let bank = ks.starts_with("bank") || ks.contains("balances");
                            let movable = !cell.needs.is_empty() || cell.name.contains("Close") || cell.name.contains("Withdraw");
                            if !(in_target && named) && !(bank && movable) {
                                foreign.insert(ks.chars().filter(|c| !c.is_control()).collect());
                            }
                        }
                    }
                    if foreign.is_empty() {
                        rep.held("matrix", abs, || label.clone());
                        rep.held("accepted_changes_only_named_state", abs, || label.clone());
                    } else {
                        rep.failed("accepted_changes_only_named_state", None, format!("{} from {who:?}: accepted but changed unrelated state: {:?}", cell.name, foreign.iter().take(4).collect::<Vec<_>>()), witness(label));
                    }
                }
            }
        }
    }
    let _ = (all_farms as fn(&World) -> _, all_positions as fn(&World) -> _);
    rep
}
