//! C15 — only authorised parties can perform privileged actions: the complete
//! (contract x privileged message x sender role x ownership state x funds) matrix, executed on
//! forks of many prepared states (position open / closed / unlocked; farm running / not started /
//! ended / expired; overlapping roles; the farm manager's pool-manager delegate re-configured).

use std::collections::BTreeSet;

use cosmwasm_std::{coin, Addr, Coin, Decimal, Uint64};
use cw_ownable::{Action, Expiration};
use mantra_dex_std::epoch_manager as em;
use mantra_dex_std::farm_manager as fm;
use mantra_dex_std::farm_manager::{FarmAction, FarmParams, PositionAction};
use mantra_dex_std::fee_collector as fc;
use mantra_dex_std::pool_manager as pm;
use mantra_dex_std::pool_manager::PoolType;
use serde_json::json;

use crate::farmobs::{all_farms, all_positions};
use crate::ops::{set_ctx, witness, Op};
use crate::report::{hash_of, Reporter};
use crate::wfarm::{farm_funds, farm_op, fm_config_op, pos_op};
use crate::world::{Snap, World, WorldCfg};
use crate::wpool::{create_pool_op, pool_fee, provide_op};
use crate::RunCfg;

#[derive(Clone, Copy, PartialEq, Eq, Debug, Hash)]
enum Who {
    Owner,
    Pending,
    OldPending,
    Former,
    FarmOwner,
    PositionOwner,
    PoolManager,
    /// the account the farm manager's configuration names as pool manager (when re-configured)
    ConfiguredDelegate,
    FarmManager,
    EpochManager,
    FeeCollector,
    Stranger,
    /// the account that instantiated the epoch manager and the farm manager (naming another owner)
    Deployer,
    ContractAccount,
}

const ROLES: [Who; 14] = [Who::Owner, Who::Pending, Who::OldPending, Who::Former, Who::FarmOwner, Who::PositionOwner, Who::PoolManager, Who::ConfiguredDelegate, Who::FarmManager, Who::EpochManager, Who::FeeCollector, Who::Stranger, Who::Deployer, Who::ContractAccount];

#[derive(Clone, Copy, PartialEq, Eq, Debug, Hash)]
enum OwnState {
    Initial,
    TransferPending,
    /// proposed with an expiry that has not passed yet
    TransferPendingUnexpired,
    TransferPendingExpired,
    /// proposed to one account, then to another before the first accepted
    ReProposed,
    Transferred,
    /// transferred and transferred back
    TransferredBack,
    Renounced,
    /// proposed, then renounced before the proposed account accepted
    RenouncedWhilePending,
}

const STATES: [OwnState; 9] = [
    OwnState::Initial,
    OwnState::TransferPending,
    OwnState::TransferPendingUnexpired,
    OwnState::TransferPendingExpired,
    OwnState::ReProposed,
    OwnState::Transferred,
    OwnState::TransferredBack,
    OwnState::Renounced,
    OwnState::RenouncedWhilePending,
];

#[derive(Clone, Copy, PartialEq, Eq, Debug, Hash)]
pub enum PosState {
    Open,
    Closed,
    ClosedUnlocked,
}

#[derive(Clone, Copy, PartialEq, Eq, Debug, Hash)]
pub enum FarmState {
    Running,
    NotStarted,
    Ended,
    Expired,
}

#[derive(Clone, Copy, PartialEq, Eq, Debug, Hash)]
pub enum Overlap {
    None,
    FarmOwnerIsPositionOwner,
    ContractOwnerIsFarmOwner,
    ContractOwnerIsPositionOwner,
}

/// one prepared state
#[derive(Clone, Copy, PartialEq, Eq, Debug, Hash)]
pub struct Prep {
    pub pos: PosState,
    pub farm: FarmState,
    pub overlap: Overlap,
    /// the farm manager's `pool_manager_addr` names an ordinary account; the LP token of the
    /// farm and the position is one created by that account
    pub delegate_reconfigured: bool,
    pub cfgv: u8,
}

pub fn all_preps() -> Vec<Prep> {
    let mut v = vec![];
    for cfgv in 0..3u8 {
        for delegate_reconfigured in [false, true] {
            for overlap in [Overlap::None, Overlap::FarmOwnerIsPositionOwner, Overlap::ContractOwnerIsFarmOwner, Overlap::ContractOwnerIsPositionOwner] {
                for farm in [FarmState::Running, FarmState::NotStarted, FarmState::Ended, FarmState::Expired] {
                    for pos in [PosState::Open, PosState::Closed, PosState::ClosedUnlocked] {
                        v.push(Prep { pos, farm, overlap, delegate_reconfigured, cfgv });
                    }
                }
            }
        }
    }
    v
}

#[derive(Clone, Copy, PartialEq, Eq, Debug, Hash)]
enum Target {
    Pm,
    Fm,
    Em,
    Fc,
}

/// what the statement allows
#[derive(Clone, Copy, PartialEq, Eq, Debug, Hash)]
enum Rule {
    OwnerOnlyNonPayable,
    AcceptOwnership,
    FarmOwnerOnly,
    FarmOwnerOrContractOwner,
    PoolManagerOrReceiver,
    PositionOwnerOrPoolManager,
    PositionOwnerOnly,
}

struct Cell {
    name: String,
    target: Target,
    rule: Rule,
    /// funds the message legitimately needs (farm expansion, position top-up)
    needs: Vec<Coin>,
    build: Box<dyn Fn(&Ctx) -> Op>,
    /// storage key fragments that may change when the cell is accepted
    may_touch: Vec<&'static str>,
    /// whether the message is valid at all in the prepared state (from an authorised sender)
    valid: fn(&Prep) -> bool,
}

struct Ctx {
    sender: Addr,
    funds: Vec<Coin>,
    pm: Addr,
    fm: Addr,
    em: Addr,
    fc: Addr,
    pending: Addr,
    position_owner: Addr,
    other: Addr,
    lp: String,
    farm_id: String,
    position_id: String,
    reward: Coin,
    now: u64,
}

fn own(action: Action) -> Action {
    action
}

fn always(_: &Prep) -> bool {
    true
}

fn cells() -> Vec<Cell> {
    let mut v: Vec<Cell> = vec![];
    macro_rules! cell {
        ($name:expr, $target:expr, $rule:expr, $needs:expr, $touch:expr, $b:expr) => {
            v.push(Cell { name: $name.to_string(), target: $target, rule: $rule, needs: $needs, build: Box::new($b), may_touch: $touch, valid: always });
        };
        ($name:expr, $target:expr, $rule:expr, $needs:expr, $touch:expr, $valid:expr, $b:expr) => {
            v.push(Cell { name: $name.to_string(), target: $target, rule: $rule, needs: $needs, build: Box::new($b), may_touch: $touch, valid: $valid });
        };
    }
    // ---- pool manager
    cell!("pm.UpdateConfig{fee_collector_addr}", Target::Pm, Rule::OwnerOnlyNonPayable, vec![], vec!["config"], |c: &Ctx| Op::Pm {
        sender: c.sender.clone(),
        msg: pm::ExecuteMsg::UpdateConfig { fee_collector_addr: Some(c.pending.to_string()), farm_manager_addr: None, pool_creation_fee: None, feature_toggle: None },
        funds: c.funds.clone()
    });
    cell!("pm.UpdateConfig{farm_manager_addr}", Target::Pm, Rule::OwnerOnlyNonPayable, vec![], vec!["config"], |c: &Ctx| Op::Pm {
        sender: c.sender.clone(),
        msg: pm::ExecuteMsg::UpdateConfig { fee_collector_addr: None, farm_manager_addr: Some(c.pending.to_string()), pool_creation_fee: None, feature_toggle: None },
        funds: c.funds.clone()
    });
    cell!("pm.UpdateConfig{pool_creation_fee}", Target::Pm, Rule::OwnerOnlyNonPayable, vec![], vec!["config"], |c: &Ctx| Op::Pm {
        sender: c.sender.clone(),
        msg: pm::ExecuteMsg::UpdateConfig { fee_collector_addr: None, farm_manager_addr: None, pool_creation_fee: Some(coin(77, "uusdc")), feature_toggle: None },
        funds: c.funds.clone()
    });
    cell!("pm.UpdateConfig{all fields and all switches at once}", Target::Pm, Rule::OwnerOnlyNonPayable, vec![], vec!["config", "pools"], |c: &Ctx| Op::Pm {
        sender: c.sender.clone(),
        msg: pm::ExecuteMsg::UpdateConfig {
            fee_collector_addr: Some(c.other.to_string()),
            farm_manager_addr: Some(c.pending.to_string()),
            pool_creation_fee: Some(coin(0, "uom")),
            feature_toggle: Some(pm::FeatureToggle { pool_identifier: "o.a".into(), swaps_enabled: Some(false), deposits_enabled: Some(false), withdrawals_enabled: Some(false) }),
        },
        funds: c.funds.clone()
    });
    cell!("pm.UpdateConfig{nothing}", Target::Pm, Rule::OwnerOnlyNonPayable, vec![], vec!["config"], |c: &Ctx| Op::Pm {
        sender: c.sender.clone(),
        msg: pm::ExecuteMsg::UpdateConfig { fee_collector_addr: None, farm_manager_addr: None, pool_creation_fee: None, feature_toggle: None },
        funds: c.funds.clone()
    });
    for (k, nm) in ["swaps", "deposits", "withdrawals"].iter().enumerate() {
        cell!(format!("pm.UpdateConfig{{feature_toggle.{nm}}}"), Target::Pm, Rule::OwnerOnlyNonPayable, vec![], vec!["config", "pools"], move |c: &Ctx| Op::Pm {
            sender: c.sender.clone(),
            msg: pm::ExecuteMsg::UpdateConfig {
                fee_collector_addr: None,
                farm_manager_addr: None,
                pool_creation_fee: None,
                feature_toggle: Some(pm::FeatureToggle {
                    pool_identifier: "o.a".into(),
                    swaps_enabled: if k == 0 { Some(false) } else { None },
                    deposits_enabled: if k == 1 { Some(false) } else { None },
                    withdrawals_enabled: if k == 2 { Some(false) } else { None },
                }),
            },
            funds: c.funds.clone()
        });
    }
    // ---- ownership actions on all four contracts
    for (t, tn) in [(Target::Pm, "pm"), (Target::Fm, "fm"), (Target::Em, "em"), (Target::Fc, "fc")] {
        let mk = move |c: &Ctx, a: Action| -> Op {
            match t {
                Target::Pm => Op::Pm { sender: c.sender.clone(), msg: pm::ExecuteMsg::UpdateOwnership(a), funds: c.funds.clone() },
                Target::Fm => Op::Fm { sender: c.sender.clone(), msg: fm::ExecuteMsg::UpdateOwnership(a), funds: c.funds.clone() },
                Target::Em => Op::Em { sender: c.sender.clone(), msg: em::ExecuteMsg::UpdateOwnership(a), funds: c.funds.clone() },
                Target::Fc => Op::Fc { sender: c.sender.clone(), msg: fc::ExecuteMsg::UpdateOwnership(a), funds: c.funds.clone() },
            }
        };
        cell!(format!("{tn}.UpdateOwnership::TransferOwnership"), t, Rule::OwnerOnlyNonPayable, vec![], vec!["ownership"], move |c: &Ctx| mk(c, own(Action::TransferOwnership { new_owner: c.position_owner.to_string(), expiry: None })));
        cell!(format!("{tn}.UpdateOwnership::TransferOwnership{{to the sender itself, with expiry}}"), t, Rule::OwnerOnlyNonPayable, vec![], vec!["ownership"], move |c: &Ctx| mk(
            c,
            own(Action::TransferOwnership { new_owner: c.sender.to_string(), expiry: Some(Expiration::AtTime(cosmwasm_std::Timestamp::from_seconds(c.now + 1_000))) })
        ));
        cell!(format!("{tn}.UpdateOwnership::AcceptOwnership"), t, Rule::AcceptOwnership, vec![], vec!["ownership"], move |c: &Ctx| mk(c, own(Action::AcceptOwnership)));
        cell!(format!("{tn}.UpdateOwnership::RenounceOwnership"), t, Rule::OwnerOnlyNonPayable, vec![], vec!["ownership"], move |c: &Ctx| mk(c, own(Action::RenounceOwnership)));
    }
    // ---- farm manager configuration, one field at a time
    let fm_fields: Vec<(&str, Box<dyn Fn(&Ctx, &mut crate::wfarm::FmCfgPatch) + Send + Sync>)> = vec![
        ("fee_collector_addr", Box::new(|c, p| p.fee_collector_addr = Some(c.pending.to_string()))),
        ("epoch_manager_addr", Box::new(|c, p| p.epoch_manager_addr = Some(c.em.to_string()))),
        ("pool_manager_addr", Box::new(|c, p| p.pool_manager_addr = Some(c.pm.to_string()))),
        ("create_farm_fee", Box::new(|_, p| p.create_farm_fee = Some(coin(5, "uusdt")))),
        ("max_concurrent_farms", Box::new(|_, p| p.max_concurrent_farms = Some(9))),
        ("max_farm_epoch_buffer", Box::new(|_, p| p.max_farm_epoch_buffer = Some(30))),
        ("min_unlocking_duration", Box::new(|_, p| p.min_unlocking_duration = Some(90_000))),
        ("max_unlocking_duration", Box::new(|_, p| p.max_unlocking_duration = Some(30_000_000))),
        ("farm_expiration_time", Box::new(|_, p| p.farm_expiration_time = Some(3_000_000))),
        ("emergency_unlock_penalty", Box::new(|_, p| p.emergency_unlock_penalty = Some(Decimal::percent(7)))),
        ("several fields at once", Box::new(|c, p| {
            p.fee_collector_addr = Some(c.other.to_string());
            p.create_farm_fee = Some(coin(0, "uom"));
            p.max_concurrent_farms = Some(9);
            p.emergency_unlock_penalty = Some(Decimal::percent(1));
        })),
        ("nothing", Box::new(|_, _| {})),
    ];
    for (nm, f) in fm_fields {
        cell!(format!("fm.UpdateConfig{{{nm}}}"), Target::Fm, Rule::OwnerOnlyNonPayable, vec![], vec!["config"], move |c: &Ctx| {
            let mut op = fm_config_op(&c.sender, |p| f(c, p));
            if let Op::Fm { funds, .. } = &mut op {
                *funds = c.funds.clone();
            }
            op
        });
    }
    // ---- epoch manager configuration
    cell!("em.UpdateConfig{epoch_config}", Target::Em, Rule::OwnerOnlyNonPayable, vec![], vec!["config"], |c: &Ctx| Op::Em {
        sender: c.sender.clone(),
        msg: em::ExecuteMsg::UpdateConfig { epoch_config: Some(em::EpochConfig { duration: Uint64::new(90_000), genesis_epoch: Uint64::new(c.now + 10) }) },
        funds: c.funds.clone()
    });
    cell!("em.UpdateConfig{nothing}", Target::Em, Rule::OwnerOnlyNonPayable, vec![], vec!["config"], |c: &Ctx| Op::Em { sender: c.sender.clone(), msg: em::ExecuteMsg::UpdateConfig { epoch_config: None }, funds: c.funds.clone() });
    // ---- farms and positions
    cell!(
        "fm.ManageFarm::Expand",
        Target::Fm,
        Rule::FarmOwnerOnly,
        vec![coin(2_000, "uusdc")],
        vec!["farms"],
        |p: &Prep| matches!(p.farm, FarmState::Running | FarmState::NotStarted),
        |c: &Ctx| {
            let mut f = c.funds.clone();
            f.retain(|x| x.denom != "uusdc");
            f.push(coin(2_000, "uusdc"));
            f.sort_by(|a, b| a.denom.cmp(&b.denom));
            farm_op(&c.sender, FarmAction::Expand { params: FarmParams { lp_denom: c.lp.clone(), start_epoch: None, preliminary_end_epoch: None, curve: None, farm_asset: coin(2_000, "uusdc"), farm_identifier: Some(c.farm_id.clone()) } }, f)
        }
    );
    cell!("fm.ManageFarm::Close", Target::Fm, Rule::FarmOwnerOrContractOwner, vec![], vec!["farms"], |c: &Ctx| farm_op(&c.sender, FarmAction::Close { farm_identifier: c.farm_id.clone() }, c.funds.clone()));
    cell!("fm.ManagePosition::Create{receiver: another account}", Target::Fm, Rule::PoolManagerOrReceiver, vec![coin(50, "LP")], vec!["positions", "lp_weight_history", "position_id_counter"], |c: &Ctx| {
        let mut f = c.funds.clone();
        f.push(coin(50, c.lp.clone()));
        f.sort_by(|a, b| a.denom.cmp(&b.denom));
        pos_op(&c.sender, PositionAction::Create { identifier: None, unlocking_duration: 86_400, receiver: Some(c.position_owner.to_string()) }, f)
    });
    cell!("fm.ManagePosition::Create{receiver: another account, explicit identifier}", Target::Fm, Rule::PoolManagerOrReceiver, vec![coin(50, "LP")], vec!["positions", "lp_weight_history"], |c: &Ctx| {
        let mut f = c.funds.clone();
        f.push(coin(50, c.lp.clone()));
        f.sort_by(|a, b| a.denom.cmp(&b.denom));
        pos_op(&c.sender, PositionAction::Create { identifier: Some("q".into()), unlocking_duration: 200_000, receiver: Some(c.position_owner.to_string()) }, f)
    });
    cell!("fm.ManagePosition::Expand", Target::Fm, Rule::PositionOwnerOrPoolManager, vec![coin(50, "LP")], vec!["positions", "lp_weight_history"], |p: &Prep| p.pos == PosState::Open, |c: &Ctx| {
        let mut f = c.funds.clone();
        f.push(coin(50, c.lp.clone()));
        f.sort_by(|a, b| a.denom.cmp(&b.denom));
        pos_op(&c.sender, PositionAction::Expand { identifier: c.position_id.clone() }, f)
    });
    cell!(
        "fm.ManagePosition::Close",
        Target::Fm,
        Rule::PositionOwnerOnly,
        vec![],
        vec!["positions", "lp_weight_history", "last_claimed_epoch", "position_id_counter"],
        |p: &Prep| p.pos == PosState::Open,
        |c: &Ctx| pos_op(&c.sender, PositionAction::Close { identifier: c.position_id.clone(), lp_asset: None }, c.funds.clone())
    );
    cell!(
        "fm.ManagePosition::Close{part of it}",
        Target::Fm,
        Rule::PositionOwnerOnly,
        vec![],
        vec!["positions", "lp_weight_history", "last_claimed_epoch", "position_id_counter"],
        |p: &Prep| p.pos == PosState::Open,
        |c: &Ctx| pos_op(&c.sender, PositionAction::Close { identifier: c.position_id.clone(), lp_asset: Some(coin(1_000, c.lp.clone())) }, c.funds.clone())
    );
    cell!("fm.ManagePosition::Withdraw{emergency}", Target::Fm, Rule::PositionOwnerOnly, vec![], vec!["positions", "lp_weight_history", "last_claimed_epoch"], |c: &Ctx| pos_op(&c.sender, PositionAction::Withdraw { identifier: c.position_id.clone(), emergency_unlock: Some(true) }, c.funds.clone()));
    cell!(
        "fm.ManagePosition::Withdraw{emergency_unlock: None}",
        Target::Fm,
        Rule::PositionOwnerOnly,
        vec![],
        vec!["positions", "lp_weight_history", "last_claimed_epoch"],
        |p: &Prep| p.pos == PosState::ClosedUnlocked,
        |c: &Ctx| pos_op(&c.sender, PositionAction::Withdraw { identifier: c.position_id.clone(), emergency_unlock: None }, c.funds.clone())
    );
    cell!(
        "fm.ManagePosition::Withdraw{emergency_unlock: Some(false)}",
        Target::Fm,
        Rule::PositionOwnerOnly,
        vec![],
        vec!["positions", "lp_weight_history", "last_claimed_epoch"],
        |p: &Prep| p.pos == PosState::ClosedUnlocked,
        |c: &Ctx| pos_op(&c.sender, PositionAction::Withdraw { identifier: c.position_id.clone(), emergency_unlock: Some(false) }, c.funds.clone())
    );
    v
}

/// the ownership situation of all four contracts
struct Sit {
    owner: Option<Addr>,
    pending: Option<Addr>,
    pending_can_accept: bool,
    old_pending: Option<Addr>,
    former: Option<Addr>,
}

/// runs the whole matrix on forks of one prepared state
pub fn run_prep(cfg: &RunCfg, idx: usize, prep: Prep) -> Reporter {
    let mut rep = Reporter::new("C15");
    set_ctx(format!("workload=W-admin (complete matrix) seed={} prepared_state={idx} {prep:?}", cfg.seed));
    let mut wcfg = WorldCfg::default();
    wcfg.n_users = 7;
    match prep.cfgv {
        1 => {
            wcfg.farm_fee = coin(0, "uom");
            wcfg.pool_creation_fee = coin(0, "uom");
            wcfg.subsec_nanos = 999_999_999;
        }
        2 => {
            wcfg.farm_fee = coin(500, "uusdt");
            wcfg.emergency_unlock_penalty = Decimal::percent(50);
            wcfg.max_concurrent_farms = 5;
            wcfg.tf_fees = vec![coin(300, "uusdt")];
            wcfg.subsec_nanos = 1;
        }
        _ => {}
    }
    let mut w = World::new(wcfg);
    let o = w.owner.clone();
    let pending = w.users[0].clone();
    let stranger = w.users[3].clone();
    let delegate = w.users[4].clone();
    let other = w.users[5].clone();
    let farm_owner = match prep.overlap {
        Overlap::ContractOwnerIsFarmOwner => o.clone(),
        _ => w.users[1].clone(),
    };
    let position_owner = match prep.overlap {
        Overlap::FarmOwnerIsPositionOwner => farm_owner.clone(),
        Overlap::ContractOwnerIsPositionOwner => o.clone(),
        _ => w.users[2].clone(),
    };
    // prepared state: a pool, LP everywhere, a farm, a position
    let op = create_pool_op(&w, &stranger, &["uom", "uusdc"], PoolType::ConstantProduct, pool_fee(5, 20, 0, &[]), Some("a"));
    assert!(w.apply(&op).is_ok(), "pool creation");
    let real_lp = w.lp_denom("o.a");
    let everybody = [o.clone(), pending.clone(), w.users[1].clone(), w.users[2].clone(), stranger.clone(), delegate.clone(), other.clone(), w.hostile.clone()];
    for u in &everybody {
        assert!(w.apply(&provide_op(u, "o.a", vec![coin(5_000_000_000, "uom"), coin(1_000_000_000, "uusdc")], None, None, None, None, None)).is_ok(), "provide");
    }
    let lp = if prep.delegate_reconfigured {
        // an ordinary account becomes the farm manager's pool manager; LP tokens are the ones
        // that account created
        assert!(w.apply(&fm_config_op(&o, |p| p.pool_manager_addr = Some(delegate.to_string()))).is_ok(), "re-configuring the delegate");
        let lp2 = format!("factory/{delegate}/o.z.LP");
        for u in &everybody {
            w.mint_to(u, coin(1_000_000_000, lp2.clone()));
        }
        lp2
    } else {
        real_lp.clone()
    };
    // the contracts' own accounts act as senders too: give them something to attach
    for a in [w.pm.clone(), w.fm.clone(), w.em.clone(), w.fc.clone()] {
        w.mint_to(&a, coin(1_000_000, "uom"));
        w.mint_to(&a, coin(1_000_000, "uusdc"));
        if prep.delegate_reconfigured {
            w.mint_to(&a, coin(1_000, lp.clone()));
        } else {
            assert!(w.bank_send(&stranger, &a, &[coin(1_000, lp.clone())]).is_ok());
        }
    }
    let reward = coin(20_000, "uusdc");
    let cur = crate::wfarm::fobserve(&w).epoch.unwrap_or(0);
    let (start, end) = match prep.farm {
        FarmState::Running => (cur + 1, cur + 11),
        FarmState::NotStarted => (cur + 12, cur + 22),
        FarmState::Ended | FarmState::Expired => (cur + 1, cur + 3),
    };
    let fee = w.cfg.farm_fee.clone();
    assert!(w.apply(&farm_op(&farm_owner, FarmAction::Create { params: FarmParams { lp_denom: lp.clone(), start_epoch: Some(start), preliminary_end_epoch: Some(end), curve: None, farm_asset: reward.clone(), farm_identifier: Some("f".into()) } }, farm_funds(&reward, &fee))).is_ok(), "farm creation");
    assert!(w.apply(&pos_op(&position_owner, PositionAction::Create { identifier: Some("p".into()), unlocking_duration: 86_400, receiver: None }, vec![coin(10_000, lp.clone())])).is_ok(), "position creation");
    let day = w.cfg.epoch_duration;
    match prep.farm {
        FarmState::Running | FarmState::NotStarted => w.advance(2 * day),
        FarmState::Ended => w.advance(5 * day),
        FarmState::Expired => w.advance(5 * day + w.cfg.farm_expiration_time + 10),
    }
    // closing a position requires its rewards to be claimed first; not part of the matrix
    let _ = w.apply(&crate::wfarm::claim_op(&position_owner, None));
    if prep.pos != PosState::Open {
        assert!(w.apply(&pos_op(&position_owner, PositionAction::Close { identifier: "u-p".into(), lp_asset: None }, vec![])).is_ok(), "closing the position");
        if prep.pos == PosState::ClosedUnlocked {
            w.advance(86_401);
        }
    }
    // the farm is in the state the prepared state names
    {
        let f = crate::wfarm::fobserve(&w);
        let e = f.epoch.unwrap_or(0);
        let fr = f.farms.get("m-f").expect("farm recorded");
        let ok = match prep.farm {
            FarmState::Running => fr.start_epoch <= e && e < fr.preliminary_end_epoch,
            FarmState::NotStarted => e < fr.start_epoch,
            FarmState::Ended | FarmState::Expired => e >= fr.preliminary_end_epoch,
        };
        assert!(ok, "farm state {:?} not reached (epoch {e}, farm {}..{})", prep.farm, fr.start_epoch, fr.preliminary_end_epoch);
    }
    let prepared = w.snapshot();
    let all = cells();
    let contracts = [(Target::Pm, w.pm.clone()), (Target::Fm, w.fm.clone()), (Target::Em, w.em.clone()), (Target::Fc, w.fc.clone())];

    for st in STATES {
        // bring all four contracts into the ownership state
        w.restore(&prepared);
        let mut ok = true;
        let exec_own = |w: &mut World, t: Target, sender: &Addr, a: Action| -> bool {
            let op = match t {
                Target::Pm => Op::Pm { sender: sender.clone(), msg: pm::ExecuteMsg::UpdateOwnership(a), funds: vec![] },
                Target::Fm => Op::Fm { sender: sender.clone(), msg: fm::ExecuteMsg::UpdateOwnership(a), funds: vec![] },
                Target::Em => Op::Em { sender: sender.clone(), msg: em::ExecuteMsg::UpdateOwnership(a), funds: vec![] },
                Target::Fc => Op::Fc { sender: sender.clone(), msg: fc::ExecuteMsg::UpdateOwnership(a), funds: vec![] },
            };
            w.apply(&op).is_ok()
        };
        let now_s = w.now();
        let propose = |to: &Addr| Action::TransferOwnership { new_owner: to.to_string(), expiry: None };
        for (t, _) in &contracts {
            match st {
                OwnState::Initial => {}
                OwnState::TransferPending => ok &= exec_own(&mut w, *t, &o, propose(&pending)),
                OwnState::TransferPendingUnexpired => ok &= exec_own(&mut w, *t, &o, Action::TransferOwnership { new_owner: pending.to_string(), expiry: Some(Expiration::AtTime(cosmwasm_std::Timestamp::from_seconds(now_s + 100_000))) }),
                OwnState::TransferPendingExpired => ok &= exec_own(&mut w, *t, &o, Action::TransferOwnership { new_owner: pending.to_string(), expiry: Some(Expiration::AtTime(cosmwasm_std::Timestamp::from_seconds(now_s + 100))) }),
                OwnState::ReProposed => {
                    ok &= exec_own(&mut w, *t, &o, propose(&pending));
                    ok &= exec_own(&mut w, *t, &o, propose(&other));
                }
                OwnState::Transferred => {
                    ok &= exec_own(&mut w, *t, &o, propose(&pending));
                    ok &= exec_own(&mut w, *t, &pending, Action::AcceptOwnership);
                }
                OwnState::TransferredBack => {
                    ok &= exec_own(&mut w, *t, &o, propose(&pending));
                    ok &= exec_own(&mut w, *t, &pending, Action::AcceptOwnership);
                    ok &= exec_own(&mut w, *t, &pending, propose(&o));
                    ok &= exec_own(&mut w, *t, &o, Action::AcceptOwnership);
                }
                OwnState::Renounced => ok &= exec_own(&mut w, *t, &o, Action::RenounceOwnership),
                OwnState::RenouncedWhilePending => {
                    ok &= exec_own(&mut w, *t, &o, propose(&pending));
                    ok &= exec_own(&mut w, *t, &o, Action::RenounceOwnership);
                }
            }
        }
        if matches!(st, OwnState::TransferPendingExpired | OwnState::TransferPendingUnexpired) {
            w.advance(200);
        }
        if !ok {
            rep.failed("ownership_flow", None, format!("could not reach ownership state {st:?} by propose/accept/renounce"), witness(json!({"state": format!("{st:?}")})));
            continue;
        }
        rep.held("ownership_flow", hash_of(&st), || json!({"state_reached": format!("{st:?}")}));
        let state: Snap = w.snapshot();
        let sit = match st {
            OwnState::Initial => Sit { owner: Some(o.clone()), pending: None, pending_can_accept: false, old_pending: None, former: None },
            OwnState::TransferPending | OwnState::TransferPendingUnexpired => Sit { owner: Some(o.clone()), pending: Some(pending.clone()), pending_can_accept: true, old_pending: None, former: None },
            OwnState::TransferPendingExpired => Sit { owner: Some(o.clone()), pending: Some(pending.clone()), pending_can_accept: false, old_pending: None, former: None },
            OwnState::ReProposed => Sit { owner: Some(o.clone()), pending: Some(other.clone()), pending_can_accept: true, old_pending: Some(pending.clone()), former: None },
            OwnState::Transferred => Sit { owner: Some(pending.clone()), pending: None, pending_can_accept: false, old_pending: None, former: Some(o.clone()) },
            OwnState::TransferredBack => Sit { owner: Some(o.clone()), pending: None, pending_can_accept: false, old_pending: None, former: Some(pending.clone()) },
            OwnState::Renounced => Sit { owner: None, pending: None, pending_can_accept: false, old_pending: None, former: Some(o.clone()) },
            OwnState::RenouncedWhilePending => Sit { owner: None, pending: None, pending_can_accept: false, old_pending: Some(pending.clone()), former: Some(o.clone()) },
        };
        // the delegate the farm manager's configuration names
        let configured_delegate = if prep.delegate_reconfigured { delegate.clone() } else { w.pm.clone() };
        for cell in &all {
            let valid = (cell.valid)(&prep);
            for who in ROLES {
                // resolve the role to an account in this state
                let sender: Addr = match who {
                    Who::Owner => match &sit.owner {
                        Some(a) => a.clone(),
                        None => continue,
                    },
                    Who::Pending => match &sit.pending {
                        Some(a) => a.clone(),
                        None => continue,
                    },
                    Who::OldPending => match &sit.old_pending {
                        Some(a) => a.clone(),
                        None => continue,
                    },
                    Who::Former => match &sit.former {
                        Some(a) => a.clone(),
                        None => continue,
                    },
                    Who::FarmOwner => farm_owner.clone(),
                    Who::PositionOwner => position_owner.clone(),
                    Who::PoolManager => w.pm.clone(),
                    Who::ConfiguredDelegate => {
                        if !prep.delegate_reconfigured {
                            continue;
                        }
                        delegate.clone()
                    }
                    Who::FarmManager => w.fm.clone(),
                    Who::EpochManager => w.em.clone(),
                    Who::FeeCollector => w.fc.clone(),
                    Who::Stranger => stranger.clone(),
                    Who::Deployer => w.deployer.clone(),
                    Who::ContractAccount => w.hostile.clone(),
                };
                for with_funds in [false, true] {
                    w.restore(&state);
                    let ctx = Ctx {
                        sender: sender.clone(),
                        funds: if with_funds { vec![coin(1, "uom")] } else { vec![] },
                        pm: w.pm.clone(),
                        fm: w.fm.clone(),
                        em: w.em.clone(),
                        fc: w.fc.clone(),
                        pending: pending.clone(),
                        position_owner: position_owner.clone(),
                        other: other.clone(),
                        lp: lp.clone(),
                        farm_id: "m-f".into(),
                        position_id: "u-p".into(),
                        reward: reward.clone(),
                        now: w.now(),
                    };
                    let op = (cell.build)(&ctx);
                    let out = w.apply(&op);
                    let is_owner = sit.owner.as_ref() == Some(&sender);
                    let authorised = match cell.rule {
                        Rule::OwnerOnlyNonPayable => is_owner,
                        Rule::AcceptOwnership => sit.pending_can_accept && sit.pending.as_ref() == Some(&sender),
                        Rule::FarmOwnerOnly => sender == farm_owner,
                        Rule::FarmOwnerOrContractOwner => sender == farm_owner || is_owner,
                        Rule::PoolManagerOrReceiver => sender == configured_delegate || sender == position_owner,
                        Rule::PositionOwnerOrPoolManager => sender == position_owner || sender == configured_delegate,
                        Rule::PositionOwnerOnly => sender == position_owner,
                    };
                    let allowed = authorised && !with_funds && valid;
                    let label = json!({"prepared_state": format!("{prep:?}"), "contract": format!("{:?}", cell.target), "message": cell.name, "sender_role": format!("{who:?}"), "ownership_state": format!("{st:?}"), "funds_attached": with_funds, "authorised": authorised, "valid_in_this_state": valid, "expected": if allowed {"accepted"} else {"rejected"}, "result": out.short()});
                    let abs = hash_of(&(&cell.name, who, st, with_funds, prep));
                    if out.is_ok() != allowed {
                        rep.failed("matrix", None, format!("{} from {who:?} in state {st:?} (funds: {with_funds}; {prep:?}): accepted={} expected={allowed}", cell.name, out.is_ok()), witness(label));
                        continue;
                    }
                    if !out.is_ok() {
                        if *w.state() == state.storage {
                            rep.held("matrix", abs, || label.clone());
                            if !authorised {
                                rep.held("unauthorised_rejected", abs, || label.clone());
                            }
                        } else {
                            rep.failed("rejected_is_noop", None, format!("rejected {} from {who:?} changed the state", cell.name), witness(label));
                        }
                        continue;
                    }
                    // accepted: only what the message names may change
                    let target_addr = contracts.iter().find(|(t, _)| *t == cell.target).map(|(_, a)| a.clone()).unwrap();
                    let mut foreign: BTreeSet<String> = BTreeSet::new();
                    let before = &state.storage.data;
                    let after = &w.state().data;
                    for k in before.keys().chain(after.keys()) {
                        if before.get(k) != after.get(k) {
                            let ks = String::from_utf8_lossy(k).to_string();
                            let in_target = ks.contains(target_addr.as_str());
                            let named = cell.may_touch.iter().any(|t| ks.contains(t));
                            let bank = ks.starts_with("bank") || ks.contains("balances");
                            let movable = !cell.needs.is_empty() || cell.name.contains("Close") || cell.name.contains("Withdraw");
                            if !(in_target && named) && !(bank && movable) {
                                foreign.insert(ks.chars().filter(|c| !c.is_control()).collect());
                            }
                        }
                    }
                    rep.count("matrix", &format!("accepted: {} from {who:?}", cell.name));
                    if foreign.is_empty() {
                        rep.held("matrix", abs, || label.clone());
                        rep.held("accepted_changes_only_named_state", abs, || label.clone());
                    } else {
                        rep.failed("accepted_changes_only_named_state", None, format!("{} from {who:?}: accepted but changed unrelated state: {:?}", cell.name, foreign.iter().take(4).collect::<Vec<_>>()), witness(label));
                    }
                }
            }
        }
    }
    let _ = (all_farms as fn(&World) -> _, all_positions as fn(&World) -> _);
    rep
}

/// quick: the original prepared state plus a seed-dependent covering sample; thorough: all of them
/// a farm manager as it is first deployed: the pool manager's address still empty (the two
/// managers need each other's address, so one of them is wired up after instantiation). Until the
/// owner does that, nobody else may configure anything
fn fresh_deployment(rep: &mut Reporter) {
    use cw_multi_test::Executor;
    let mut w = World::new(WorldCfg::default());
    let owner = w.owner.clone();
    let deployer = w.deployer.clone();
    let code = w.code_ids[1];
    let fresh = match w.app.instantiate_contract(
        code,
        deployer.clone(),
        &fm::InstantiateMsg {
            owner: owner.to_string(),
            epoch_manager_addr: w.em.to_string(),
            fee_collector_addr: w.fc.to_string(),
            pool_manager_addr: String::new(),
            create_farm_fee: coin(1_000, "uom"),
            max_concurrent_farms: 3,
            max_farm_epoch_buffer: 14,
            min_unlocking_duration: 86_400,
            max_unlocking_duration: 31_556_926,
            farm_expiration_time: 2_629_746,
            emergency_unlock_penalty: Decimal::percent(10),
        },
        &[],
        "farm-manager-fresh",
        None,
    ) {
        Ok(a) => a,
        Err(e) => {
            rep.count("unauthorised_rejected", &format!("fresh_deployment: instantiation with an empty pool manager refused ({})", crate::world::trunc(&e.root_cause().to_string(), 60)));
            return;
        }
    };
    let cfg0: Result<fm::Config, String> = w.query(&fresh, &fm::QueryMsg::Config {});
    let strangers = [("stranger", w.users[0].clone()), ("deployer", deployer.clone()), ("a contract account", w.hostile.clone()), ("the pool manager to be", w.pm.clone())];
    for (who, a) in strangers.iter() {
        for full in [false, true] {
            let msg = fm::ExecuteMsg::UpdateConfig {
                fee_collector_addr: if full { Some(a.to_string()) } else { None },
                epoch_manager_addr: if full { Some(w.em.to_string()) } else { None },
                pool_manager_addr: Some(a.to_string()),
                create_farm_fee: if full { Some(coin(0, "uom")) } else { None },
                max_concurrent_farms: if full { Some(9) } else { None },
                max_farm_epoch_buffer: None,
                min_unlocking_duration: None,
                max_unlocking_duration: None,
                farm_expiration_time: None,
                emergency_unlock_penalty: if full { Some(Decimal::zero()) } else { None },
            };
            let out = w.exec(a, &fresh, &msg, &[]);
            let cfg1: Result<fm::Config, String> = w.query(&fresh, &fm::QueryMsg::Config {});
            if out.is_ok() || cfg1 != cfg0 {
                rep.failed("unauthorised_rejected", None, format!("freshly deployed farm manager (pool manager not wired yet): UpdateConfig naming a pool manager from {who} accepted={} config changed={}", out.is_ok(), cfg1 != cfg0), witness(json!({"sender": who, "all_fields": full, "config_after": format!("{cfg1:?}")})));
                return;
            }
            rep.held("unauthorised_rejected", hash_of(&("fresh", who, full)), || json!({"state": "farm manager just deployed, pool manager address empty", "sender": who, "message": "UpdateConfig naming a pool manager", "other_fields_too": full, "result": out.short()}));
        }
    }
    // and the owner can
    let out = w.exec(&owner, &fresh, &fm::ExecuteMsg::UpdateConfig { fee_collector_addr: None, epoch_manager_addr: None, pool_manager_addr: Some(w.pm.to_string()), create_farm_fee: None, max_concurrent_farms: None, max_farm_epoch_buffer: None, min_unlocking_duration: None, max_unlocking_duration: None, farm_expiration_time: None, emergency_unlock_penalty: None }, &[]);
    if out.is_ok() {
        rep.held("matrix", hash_of(&"fresh_owner_wires"), || json!({"state": "farm manager just deployed", "sender": "owner", "message": "UpdateConfig naming the pool manager", "result": "ok"}));
    } else {
        rep.failed("matrix", None, format!("the owner could not wire the pool manager into a freshly deployed farm manager: {}", out.short()), witness(json!({})));
    }
}

pub fn run_matrix(cfg: &RunCfg) -> Reporter {
    let all = all_preps();
    let picked: Vec<(usize, Prep)> = if cfg.thorough() {
        all.iter().copied().enumerate().collect()
    } else {
        let stride = 11usize; // co-prime to every dimension size, so all values of all dimensions appear
        let off = (cfg.seed as usize) % stride;
        all.iter().copied().enumerate().filter(|(i, _)| *i == 0 || i % stride == off).collect()
    };
    let n = picked.len();
    let mut rep = crate::run_shards(cfg, n, |s| run_prep(cfg, picked[s].0, picked[s].1));
    for (i, p) in &picked {
        rep.count("matrix", &format!("prepared state {i}: {p:?}"));
    }
    fresh_deployment(&mut rep);
    rep
}
