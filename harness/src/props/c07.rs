//! C07 — each user's reward is their weight share per epoch, however claims are scheduled;
//! the Rewards query equals what an immediate Claim pays.

use std::collections::BTreeMap;

use cosmwasm_std::{coin, Addr};
use mantra_dex_std::farm_manager as fm;
use mantra_dex_std::farm_manager::PositionAction;
use num_bigint::BigInt;
use num_traits::Zero;
use rand::rngs::StdRng;
use rand::seq::SliceRandom;
use rand::{Rng, SeedableRng};
use serde_json::json;

use crate::exact::bi;
use crate::ledger::{rightful, Ledger};
use crate::ops::{witness, Monitor, Op, Step};
use crate::props::c06::paid_to;
use crate::report::{hash_of, Reporter};
use crate::wfarm::{claim_op, fobserve, pos_op};
use crate::world::{BankKind, Outcome, World};
use crate::wpool::log_uniform;

pub struct C07 {
    pub ledger: Ledger,
    rng: StdRng,
    pub schedule_every: usize,
}

impl C07 {
    pub fn new(seed: u64) -> C07 {
        C07 {
            ledger: Ledger::default(),
            rng: StdRng::seed_from_u64(seed ^ 0xC07),
            schedule_every: 50,
        }
    }
}

fn query_rewards(w: &World, user: &Addr, until: Option<u64>) -> Result<BTreeMap<String, u128>, String> {
    let r: fm::RewardsResponse = w.query(&w.fm, &fm::QueryMsg::Rewards { address: user.to_string(), until_epoch: until })?;
    match r {
        fm::RewardsResponse::RewardsResponse { total_rewards, .. } => Ok(total_rewards.into_iter().map(|c| (c.denom, c.amount.u128())).collect()),
        _ => Err("unexpected response".into()),
    }
}

fn received(out: &Outcome, from: &Addr, to: &Addr) -> BTreeMap<String, u128> {
    let mut m = BTreeMap::new();
    for e in out.log() {
        if e.kind == BankKind::Send && e.from == from.as_str() && e.to == to.as_str() {
            for c in &e.coins {
                *m.entry(c.denom.clone()).or_insert(0u128) += c.amount.u128();
            }
        }
    }
    m
}

/// u128 amounts as strings (serde_json numbers stop at u64)
fn jmap(m: &BTreeMap<String, u128>) -> serde_json::Value {
    serde_json::Value::Array(m.iter().map(|(d, a)| serde_json::Value::String(format!("{a}{d}"))).collect())
}

fn add(into: &mut BTreeMap<String, u128>, x: &BTreeMap<String, u128>) {
    for (k, v) in x {
        *into.entry(k.clone()).or_default() += v;
    }
}

impl C07 {
    /// same frozen future, three claim schedules for one user, from one forked state
    fn schedules(&mut self, w: &mut World, s: &Step, rep: &mut Reporter) {
        let cur = match s.fpost.epoch {
            Some(c) => c,
            None => return,
        };
        // a user with open positions and at least one live farm on one of its LP tokens
        let mut cands: Vec<Addr> = vec![];
        for p in s.fpost.positions.values() {
            if p.open && s.fpost.farms.values().any(|f| f.lp_denom == p.lp_asset.denom && f.preliminary_end_epoch > cur + 1 && f.start_epoch <= cur + 2 && !f.emission_rate.is_zero()) {
                cands.push(p.receiver.clone());
            }
        }
        cands.sort();
        cands.dedup();
        let user = match cands.choose(&mut self.rng) {
            Some(u) => u.clone(),
            None => return,
        };
        let snap = w.snapshot();
        // bring the user level: claim everything up to now, so that all three schedules start
        // from the same cursor
        let lvl = w.apply(&claim_op(&user, None));
        if !lvl.is_ok() {
            w.restore(&snap);
            rep.skipped("schedule_independence");
            return;
        }
        let base = w.snapshot();
        // frozen tail: epochs pass, other users open / top up positions; nobody closes a farm
        #[derive(Clone)]
        enum T {
            Epoch,
            Other(Op),
        }
        let mut tail: Vec<T> = vec![];
        let epochs = self.rng.gen_range(2..8);
        let others: Vec<Addr> = w.users.iter().filter(|u| **u != user).cloned().collect();
        let lps: Vec<String> = s.fpost.positions.values().filter(|p| p.receiver == user && p.open).map(|p| p.lp_asset.denom.clone()).collect();
        for _ in 0..epochs {
            tail.push(T::Epoch);
            for _ in 0..self.rng.gen_range(0..3) {
                let o = others.choose(&mut self.rng).unwrap().clone();
                let lp = lps.choose(&mut self.rng).unwrap().clone();
                let bal = s.post.bal(&o, &lp);
                if bal < 1000 {
                    continue;
                }
                let amt = log_uniform(&mut self.rng, 1, (bal / 100).min(10u128.pow(18)));
                let mine: Vec<String> = s.fpost.positions.values().filter(|p| p.receiver == o && p.open && p.lp_asset.denom == lp).map(|p| p.identifier.clone()).collect();
                let op = if !mine.is_empty() && self.rng.gen_bool(0.4) {
                    pos_op(&o, PositionAction::Expand { identifier: mine.choose(&mut self.rng).unwrap().clone() }, vec![coin(amt, lp)])
                } else {
                    pos_op(&o, PositionAction::Create { identifier: None, unlocking_duration: *[86_400u64, 2_629_746, 15_778_463, 31_556_926].choose(&mut self.rng).unwrap(), receiver: None }, vec![coin(amt, lp)])
                };
                tail.push(T::Other(op));
            }
        }
        let dur = w.cfg.epoch_duration;
        let end_epoch = cur + epochs as u64;
        // schedule: 0 = claim after every epoch, 1 = once at the end, 2 = random split with until_epoch
        let mut totals: Vec<BTreeMap<String, u128>> = vec![];
        let mut others_due: Vec<BTreeMap<String, BTreeMap<String, u128>>> = vec![];
        let mut claims = 0;
        let mut ok_all = true;
        for sched in 0..3 {
            w.restore(&base);
            let mut got: BTreeMap<String, u128> = BTreeMap::new();
            let mut e = cur;
            let mut claimed_to = cur;
            for t in &tail {
                match t {
                    T::Epoch => {
                        w.advance(dur);
                        e += 1;
                        let do_claim = match sched {
                            0 => true,
                            1 => false,
                            _ => self.rng.gen_bool(0.5),
                        };
                        if do_claim {
                            let until = if sched == 2 && e > claimed_to + 1 && self.rng.gen_bool(0.6) { Some(self.rng.gen_range(claimed_to + 1..=e)) } else { None };
                            let out = w.apply(&claim_op(&user, until));
                            if !out.is_ok() {
                                ok_all = false;
                                break;
                            }
                            claims += 1;
                            claimed_to = until.unwrap_or(e);
                            add(&mut got, &received(&out, &w.fm, &user));
                        }
                    }
                    T::Other(op) => {
                        w.apply(op);
                    }
                }
            }
            if !ok_all {
                break;
            }
            let out = w.apply(&claim_op(&user, None));
            if !out.is_ok() {
                ok_all = false;
                break;
            }
            claims += 1;
            add(&mut got, &received(&out, &w.fm, &user));
            totals.push(got);
            let mut due = BTreeMap::new();
            for o in &others {
                due.insert(o.to_string(), query_rewards(w, o, None).unwrap_or_default());
            }
            others_due.push(due);
        }
        w.restore(&snap);
        if !ok_all {
            rep.skipped("schedule_independence");
            return;
        }
        let abs = hash_of(&(epochs, tail.len(), totals[0].len(), lps.len().min(3)));
        if totals[0] == totals[1] && totals[1] == totals[2] && others_due[0] == others_due[1] && others_due[1] == others_due[2] {
            if totals[0].is_empty() {
                rep.count("schedule_independence", "nothing_paid_under_any_schedule");
                return;
            }
            rep.held_rich("schedule_independence", abs, || {
                json!({"user": w.name_of(user.as_str()), "epochs": format!("{cur}..{end_epoch}"), "other_users_operations": tail.iter().filter(|t| matches!(t, T::Other(_))).count(),
                       "claims_executed": claims, "total_paid_each_schedule": totals[0].iter().map(|(d, a)| format!("{a}{d}")).collect::<Vec<_>>()})
            });
        } else {
            rep.failed(
                "schedule_independence",
                None,
                format!("{}'s total reward over epochs {cur}..{end_epoch} depends on the claim schedule (every epoch / once / split): {:?}", w.name_of(user.as_str()), totals),
                witness(json!({"every_epoch": jmap(&totals[0]), "once": jmap(&totals[1]), "split": jmap(&totals[2]), "others_same": others_due[0] == others_due[1] && others_due[1] == others_due[2]})),
            );
        }
    }
}

impl Monitor for C07 {
    fn step(&mut self, w: &mut World, s: &Step, rep: &mut Reporter) {
        self.judge(w, s, rep);
        if s.idx % self.schedule_every == self.schedule_every - 1 {
            self.schedules(w, s, rep);
        }
        if s.idx % 400 == 123 {
            self.many_farms_probe(w, s, rep);
        }
        if s.idx % 400 == 323 {
            self.long_history_probe(w, s, rep);
        }
    }
}

impl C07 {
    /// one message executed in a fork, fed to the ledger and judged like any other
    fn forked(&mut self, w: &mut World, op: &Op, idx: usize, rep: &mut Reporter) -> bool {
        let pre = crate::ops::observe(w);
        let fpre = fobserve(w);
        let pre_snap = w.snapshot();
        let out = w.apply(op);
        let post = crate::ops::observe(w);
        let fpost = fobserve(w);
        let st = Step { idx, op, pre_snap: &pre_snap, pre: &pre, out: &out, post: &post, fpre: &fpre, fpost: &fpost };
        self.judge(w, &st, rep);
        out.is_ok()
    }

    /// forked: the owner raises the farm limit, more than ten farms (auto and explicit
    /// identifiers, several reward tokens) run on one LP token, time passes, and every staker of
    /// that LP token claims - each claim judged by the ordinary clauses
    fn many_farms_probe(&mut self, w: &mut World, s: &Step, rep: &mut Reporter) {
        use crate::wfarm::{farm_funds, farm_op, fm_config_op};
        use mantra_dex_std::farm_manager::{FarmAction, FarmParams};
        let cur = match s.fpost.epoch {
            Some(e) => e,
            None => return,
        };
        let stakers: Vec<(Addr, String)> = s.fpost.positions.values().filter(|p| p.open).map(|p| (p.receiver.clone(), p.lp_asset.denom.clone())).collect();
        let lp = match stakers.choose(&mut self.rng) {
            Some((_, lp)) => lp.clone(),
            None => return,
        };
        let snap = w.snapshot();
        let saved = self.ledger.clone();
        let owner = w.owner.clone();
        let limit = s.fpost.cfg.max_concurrent_farms.max(14);
        if !self.forked(w, &fm_config_op(&owner, |p| p.max_concurrent_farms = Some(limit)), s.idx, rep) {
            self.ledger = saved;
            w.restore(&snap);
            return;
        }
        let fee = s.fpost.cfg.create_farm_fee.clone();
        let denoms = ["uusdc", "uom", "uusdt", "uwbtc"];
        let mut made = 0usize;
        for k in 0..16usize {
            let live = fobserve(w).farms.values().filter(|f| f.lp_denom == lp).count();
            if live >= 13 {
                break;
            }
            let reward = coin(self.rng.gen_range(3_000..3_000_000u128), denoms[k % denoms.len()]);
            let id = if k % 3 == 0 { Some(format!("many{}x{k}", s.idx)) } else { None };
            let who = w.users[k % w.users.len()].clone();
            let span = self.rng.gen_range(2..6u64);
            let op = farm_op(&who, FarmAction::Create { params: FarmParams { lp_denom: lp.clone(), start_epoch: Some(cur + 1), preliminary_end_epoch: Some(cur + 1 + span), curve: None, farm_asset: reward.clone(), farm_identifier: id } }, farm_funds(&reward, &fee));
            if self.forked(w, &op, s.idx, rep) {
                made += 1;
            }
        }
        let live = fobserve(w).farms.values().filter(|f| f.lp_denom == lp).count();
        let day = w.cfg.epoch_duration;
        for _ in 0..3 {
            self.forked(w, &Op::Advance { secs: day }, s.idx, rep);
            let mut who: Vec<Addr> = stakers.iter().filter(|(_, l)| *l == lp).map(|(a, _)| a.clone()).collect();
            who.sort();
            who.dedup();
            for u in who {
                if self.rng.gen_range(0..3) != 0 {
                    self.forked(w, &claim_op(&u, None), s.idx, rep);
                }
            }
        }
        rep.count("share_exact", &format!("many_farms_probe: farms on the LP token {}", if live > 10 { "> 10" } else { "<= 10" }));
        let _ = made;
        self.ledger = saved;
        w.restore(&snap);
    }

    /// forked: (1) a staker changes its weight in each of twelve consecutive epochs without
    /// claiming and then claims once; (2) a user with ten open positions in one LP token gets an
    /// eleventh - in another LP token - through a locked deposit via the pool manager (refused
    /// on a correct tree), a farm runs on that LP token, the user claims. Every message is fed
    /// to the ledger and judged by the ordinary clauses.
    fn long_history_probe(&mut self, w: &mut World, s: &Step, rep: &mut Reporter) {
        use crate::wfarm::{farm_funds, farm_op};
        use mantra_dex_std::farm_manager::{FarmAction, FarmParams};
        let cur = match s.fpost.epoch {
            Some(e) => e,
            None => return,
        };
        let snap = w.snapshot();
        let saved = self.ledger.clone();
        let day = w.cfg.epoch_duration;
        let fee = s.fpost.cfg.create_farm_fee.clone();
        let owner = w.owner.clone();
        // room for the probe's farms
        let limit = s.fpost.cfg.max_concurrent_farms.max(8);
        self.forked(w, &crate::wfarm::fm_config_op(&owner, |p| p.max_concurrent_farms = Some(limit)), s.idx, rep);
        let mk_farm = |lp: &str, start: u64, epochs: u64, who: &Addr, tag: String| {
            let reward = coin(10_000 * epochs as u128, "uusdc");
            farm_op(who, FarmAction::Create { params: FarmParams { lp_denom: lp.to_string(), start_epoch: Some(start), preliminary_end_epoch: Some(start + epochs), curve: None, farm_asset: reward.clone(), farm_identifier: Some(tag) } }, farm_funds(&reward, &fee))
        };
        // ---- part 1: twelve weight changes in twelve epochs, one claim
        let open: Vec<&mantra_dex_std::farm_manager::Position> = s.fpost.positions.values().filter(|p| p.open).collect();
        if let Some(p) = open.choose(&mut self.rng) {
            let (u, lp, id) = (p.receiver.clone(), p.lp_asset.denom.clone(), p.identifier.clone());
            let creator = w.users.iter().find(|x| **x != u).cloned().unwrap_or(owner.clone());
            self.forked(w, &claim_op(&u, None), s.idx, rep);
            self.forked(w, &mk_farm(&lp, cur + 1, 16, &creator, format!("lh{}a", s.idx)), s.idx, rep);
            let mut changes = 0;
            for k in 0..12u128 {
                self.forked(w, &Op::Advance { secs: day }, s.idx, rep);
                let bal = w.balance(&u, &lp);
                if bal > 0 {
                    let amt = (p.lp_asset.amount.u128() / 50 + 1 + k).min(bal);
                    if self.forked(w, &pos_op(&u, PositionAction::Expand { identifier: id.clone() }, vec![coin(amt, lp.clone())]), s.idx, rep) {
                        changes += 1;
                    }
                }
            }
            self.forked(w, &Op::Advance { secs: day }, s.idx, rep);
            self.forked(w, &claim_op(&u, None), s.idx, rep);
            rep.count("share_exact", &format!("long_history_probe: one claim after {} weight changes in consecutive epochs", if changes >= 11 { "11+" } else { "fewer than 11" }));
        }
        w.restore(&snap);
        self.ledger = saved.clone();
        // ---- part 2: the eleventh open position, in another LP token, arrives through the pool manager
        let lps: Vec<String> = s.post.pools.values().map(|p| p.info.lp_denom.clone()).collect();
        let cands: Vec<Addr> = w.users.clone();
        'outer: for v in cands {
            let held: std::collections::BTreeSet<String> = s.fpost.positions.values().filter(|p| p.open && p.receiver == v).map(|p| p.lp_asset.denom.clone()).collect();
            let other = match s.post.pools.values().find(|p| !held.contains(&p.info.lp_denom) && p.info.assets.len() == 2 && p.funded()) {
                Some(p) => p.clone(),
                None => continue,
            };
            let home = match lps.iter().find(|l| **l != other.info.lp_denom && w.balance(&v, l) >= 100) {
                Some(l) => l.clone(),
                None => continue,
            };
            self.forked(w, &crate::wfarm::fm_config_op(&owner, |p| p.max_concurrent_farms = Some(limit)), s.idx, rep);
            let n_open = s.fpost.positions.values().filter(|p| p.open && p.receiver == v).count();
            for k in n_open..10 {
                if !self.forked(w, &pos_op(&v, PositionAction::Create { identifier: Some(format!("lim{}x{k}", s.idx)), unlocking_duration: 86_400, receiver: None }, vec![coin(5, home.clone())]), s.idx, rep) {
                    break 'outer;
                }
            }
            // the locked deposit that would make it eleven (its identifier sorts after all others)
            let funds: Vec<cosmwasm_std::Coin> = other.info.assets.iter().map(|c| coin((c.amount.u128() / 1_000_000).max(1), c.denom.clone())).collect();
            let accepted = self.forked(w, &crate::wpool::provide_op(&v, &other.info.pool_identifier, funds, None, None, None, Some(86_400), Some(format!("zzz{}", s.idx))), s.idx, rep);
            rep.count("share_exact", if accepted { "long_history_probe: eleventh open position accepted" } else { "long_history_probe: eleventh open position refused" });
            let creator = w.users.iter().find(|x| **x != v).cloned().unwrap_or(owner.clone());
            self.forked(w, &mk_farm(&other.info.lp_denom, cur + 1, 4, &creator, format!("lh{}b", s.idx)), s.idx, rep);
            for _ in 0..3 {
                self.forked(w, &Op::Advance { secs: day }, s.idx, rep);
            }
            self.forked(w, &claim_op(&v, None), s.idx, rep);
            break;
        }
        self.ledger = saved.clone();
        w.restore(&snap);
        // ---- part 3: a farm claimed down to exactly zero that is still stored, and a late joiner
        // who carries a claim cursor (from another LP token) older than that farm's end
        let late = match s.fpost.positions.values().filter(|p| p.open).map(|p| p.receiver.clone()).collect::<Vec<_>>().choose(&mut self.rng) {
            Some(a) => a.clone(),
            None => {
                self.ledger = saved;
                return;
            }
        };
        let staker = w.users.iter().find(|x| **x != late).cloned().unwrap_or(owner.clone());
        let creator = w.users.iter().find(|x| **x != late && **x != staker).cloned().unwrap_or(owner.clone());
        let name = format!("sp{}", s.idx);
        let pid = format!("o.{name}");
        let mut ok = self.forked(w, &crate::wpool::create_pool_op(w, &staker, &["uom", "uusdt"], mantra_dex_std::pool_manager::PoolType::ConstantProduct, crate::wpool::pool_fee(0, 30, 0, &[]), Some(&name)), s.idx, rep);
        ok &= self.forked(w, &crate::wpool::provide_op(&staker, &pid, vec![coin(5_000_000_000, "uom"), coin(1_000_000_000, "uusdt")], None, None, None, None, None), s.idx, rep);
        ok &= self.forked(w, &crate::wpool::provide_op(&late, &pid, vec![coin(50_000_000, "uom"), coin(10_000_000, "uusdt")], None, None, None, None, None), s.idx, rep);
        let lp = w.lp_denom(&pid);
        // the late joiner's cursor: a claim now, on whatever it holds elsewhere
        self.forked(w, &claim_op(&late, None), s.idx, rep);
        ok &= self.forked(w, &pos_op(&staker, PositionAction::Create { identifier: None, unlocking_duration: 86_400, receiver: None }, vec![coin(1_000_000, lp.clone())]), s.idx, rep);
        let k = self.rng.gen_range(2..5u64);
        let reward = coin(self.rng.gen_range(500..5_000u128) * k as u128, "uusdc");
        ok &= self.forked(w, &farm_op(&creator, FarmAction::Create { params: FarmParams { lp_denom: lp.clone(), start_epoch: Some(cur + 1), preliminary_end_epoch: Some(cur + 1 + k), curve: None, farm_asset: reward.clone(), farm_identifier: Some(format!("sp{}", s.idx)) } }, farm_funds(&reward, &fee)), s.idx, rep);
        if ok {
            for _ in 0..(k + 2) {
                self.forked(w, &Op::Advance { secs: day }, s.idx, rep);
            }
            self.forked(w, &claim_op(&staker, None), s.idx, rep);
            let spent = fobserve(w).farms.get(&format!("m-sp{}", s.idx)).map(|x| x.claimed_amount == x.farm_asset.amount).unwrap_or(false);
            let joined = self.forked(w, &pos_op(&late, PositionAction::Create { identifier: None, unlocking_duration: 86_400, receiver: None }, vec![coin(1_000, lp.clone())]), s.idx, rep);
            self.forked(w, &Op::Advance { secs: day }, s.idx, rep);
            self.forked(w, &claim_op(&late, None), s.idx, rep);
            rep.count("claim_possible", &format!("long_history_probe: late joiner with an old cursor claims next to a {} farm (joined: {joined})", if spent { "fully claimed, still stored" } else { "not fully claimed" }));
        } else {
            rep.count("claim_possible", "long_history_probe: spent-farm part could not be set up");
        }
        self.ledger = saved.clone();
        w.restore(&snap);
        // ---- part 4: weights beyond 64 bits (some eighteen whole tokens of an 18-decimals LP
        // token) and emissions of 1e21 per epoch: the share must still be the exact floor
        if let Some(lp4) = s.post.pools.values().map(|p| p.info.lp_denom.clone()).next() {
            let (ua, ub) = (w.users[0].clone(), w.users[1].clone());
            let creator4 = w.users.get(2).cloned().unwrap_or(owner.clone());
            let big = 1u128 << 64;
            w.mint_to(&ua, coin(big, lp4.clone()));
            w.mint_to(&ub, coin(big + 3, lp4.clone()));
            let mut ok4 = self.forked(w, &claim_op(&ua, None), s.idx, rep) | true;
            ok4 &= self.forked(w, &pos_op(&ua, PositionAction::Create { identifier: Some(format!("lw{}a", s.idx)), unlocking_duration: s.fpost.cfg.min_unlocking_duration, receiver: None }, vec![coin(big, lp4.clone())]), s.idx, rep);
            ok4 &= self.forked(w, &pos_op(&ub, PositionAction::Create { identifier: Some(format!("lw{}b", s.idx)), unlocking_duration: s.fpost.cfg.min_unlocking_duration, receiver: None }, vec![coin(big + 3, lp4.clone())]), s.idx, rep);
            let k4 = 3u64;
            let reward4 = coin(10u128.pow(21) * k4 as u128, "udai");
            self.forked(w, &crate::wfarm::fm_config_op(&owner, |p| p.max_concurrent_farms = Some(limit)), s.idx, rep);
            ok4 &= self.forked(w, &farm_op(&creator4, FarmAction::Create { params: FarmParams { lp_denom: lp4.clone(), start_epoch: Some(cur + 1), preliminary_end_epoch: Some(cur + 1 + k4), curve: None, farm_asset: reward4.clone(), farm_identifier: Some(format!("lw{}", s.idx)) } }, farm_funds(&reward4, &fee)), s.idx, rep);
            if ok4 {
                for _ in 0..(k4 + 1) {
                    self.forked(w, &Op::Advance { secs: day }, s.idx, rep);
                }
                let a_ok = self.forked(w, &claim_op(&ua, None), s.idx, rep);
                let b_ok = self.forked(w, &claim_op(&ub, None), s.idx, rep);
                rep.count("share_exact", &format!("long_history_probe: claims with weights beyond 64 bits and 1e21 per epoch (executed: {a_ok}/{b_ok})"));
            } else {
                rep.count("share_exact", "long_history_probe: large-weight part could not be set up");
            }
        }
        self.ledger = saved;
        w.restore(&snap);
    }

    fn judge(&mut self, w: &mut World, s: &Step, rep: &mut Reporter) {
        let fm_addr = w.fm.to_string();
        // a farm that comes into being with a first epoch some staker has already claimed through
        // can never pay that staker for it, while an equal staker who has not claimed yet is paid:
        // the total would depend on the claim schedule
        if let (Op::Fm { msg: fm::ExecuteMsg::ManageFarm { action: fm::FarmAction::Create { .. } }, .. }, true) = (s.op, s.out.is_ok()) {
            for (id, f) in s.fpost.farms.iter().filter(|(id, _)| !s.fpre.farms.contains_key(*id)) {
                let mut hit = vec![];
                for ((addr, lp), hist) in &s.fpost.weights {
                    if lp != &f.lp_denom || addr == &fm_addr {
                        continue;
                    }
                    if let Some(lc) = s.fpost.last_claimed.get(addr) {
                        if *lc >= f.start_epoch && (f.start_epoch..=*lc).any(|e| crate::farmobs::weight_at(Some(hist), e) > 0) {
                            hit.push(format!("{} (claimed through epoch {lc})", w.name_of(addr)));
                        }
                    }
                }
                if hit.is_empty() {
                    rep.held("schedule_independence", hash_of(&("new_farm_after_every_cursor", f.start_epoch > s.fpre.epoch.unwrap_or(0))), || json!({"new_farm": id, "start_epoch": f.start_epoch, "current_epoch": s.fpre.epoch, "stakers_whose_cursor_already_covers_its_first_epoch": 0}));
                } else {
                    rep.failed("schedule_independence", None, format!("farm {id} was created with first epoch {} while stakers of its LP token have already claimed through it: {}; they can never be paid for those epochs, stakers who have not claimed yet will be", f.start_epoch, hit.join(", ")), witness(json!({"farm": format!("{f:?}"), "current_epoch": s.fpre.epoch, "stakers": hit})));
                }
            }
        }
        if let Op::Fm { sender, msg: fm::ExecuteMsg::Claim { until_epoch }, funds } = s.op {
            if let (Some(cur), true) = (s.fpre.epoch, funds.is_empty()) {
                let user = sender.to_string();
                let until = until_epoch.unwrap_or(cur);
                // --- clause 1: Rewards query (in the pre-state) == what the claim pays
                let post = w.snapshot();
                w.restore(s.pre_snap);
                let q = query_rewards(w, sender, *until_epoch);
                w.restore(&post);
                let has_open = s.fpre.positions.values().any(|p| p.open && p.receiver == *sender);
                let paid = paid_to(s, w, &user);
                let abs = hash_of(&(s.out.is_ok(), q.is_ok(), paid.len(), until_epoch.is_some(), has_open));
                match (&q, s.out.is_ok()) {
                    (Ok(q), true) => {
                        let mut qq = q.clone();
                        qq.retain(|_, v| *v > 0);
                        if qq == paid && !paid.is_empty() {
                            rep.held_rich("query_equals_claim", abs, || json!({"user": w.name_of(&user), "until_epoch": until_epoch, "rewards_query": q.iter().map(|(d, a)| format!("{a}{d}")).collect::<Vec<_>>(), "claim_paid": "identical"}));
                        } else if qq == paid {
                            rep.held("query_equals_claim", abs, || json!({"user": w.name_of(&user), "until_epoch": until_epoch, "rewards_query": q.iter().map(|(d, a)| format!("{a}{d}")).collect::<Vec<_>>(), "claim_paid": "identical"}));
                        } else {
                            rep.failed("query_equals_claim", None, format!("Rewards query said {:?}, the immediate claim paid {:?}", q, paid), witness(json!({"user": w.name_of(&user), "query": jmap(q), "paid": jmap(&paid)})));
                        }
                    }
                    (Err(_), false) => rep.held("query_equals_claim", abs, || json!({"user": w.name_of(&user), "both": "fail", "claim": s.out.short()})),
                    (Ok(q), false) => {
                        // the query answers "nothing" for users without open positions while the
                        // claim is refused: same observable content (nothing is paid)
                        if q.values().all(|v| *v == 0) {
                            rep.held("query_equals_claim", abs, || json!({"user": w.name_of(&user), "query": "nothing due", "claim": s.out.short()}));
                        } else {
                            rep.failed("query_equals_claim", None, format!("Rewards query promises {:?} but the immediate claim fails: {}", q, s.out.short()), witness(json!({"user": w.name_of(&user), "query": jmap(q)})));
                        }
                    }
                    (Err(e), true) => rep.failed("query_equals_claim", None, format!("Rewards query fails ({e}) but the claim pays {:?}", paid), witness(json!({"user": w.name_of(&user)}))),
                }
                // --- a claim is refused only for the reasons the interface names: no open position,
                // an epoch outside (last claimed, current], funds attached. Anything else (an
                // arithmetic failure, an exhausted farm) withholds the user's share
                if !s.out.is_ok() {
                    let why = s.out.err_msg().unwrap_or("");
                    let named = why.contains("Invalid epoch") || why.contains("doesn't have open positions") || why.contains("does no accept funds") || why.contains("does not accept funds");
                    if named && !s.out.is_abort() {
                        rep.held("claim_possible", hash_of(&crate::ops::err_class(why)), || json!({"user": w.name_of(&user), "refused_because": why}));
                    } else {
                        rep.failed("claim_possible", None, format!("claim by {} (open positions: {has_open}, until_epoch {:?}) failed: {}", w.name_of(&user), until_epoch, s.out.short()), witness(json!({"user": w.name_of(&user), "result": s.out.short()})));
                    }
                } else {
                    rep.held("claim_possible", hash_of(&("ok", until_epoch.is_some())), || json!({"user": w.name_of(&user), "claim": "executed"}));
                }
                // --- clause 2: the payment is the weight share, floored per farm-epoch
                if s.out.is_ok() {
                    let last = self.ledger.last.get(&user).copied();
                    let r = rightful(&self.ledger, &fm_addr, s.fpre, &user, last, until);
                    let mut errs = vec![];
                    let mut denoms: Vec<&String> = paid.keys().chain(r.by_total_floor.keys()).collect();
                    denoms.sort();
                    denoms.dedup();
                    for d in denoms {
                        let p = bi(paid.get(d).copied().unwrap_or(0));
                        let exp = r.by_total_floor.get(d).cloned().unwrap_or_else(BigInt::zero);
                        let n = r.farm_epochs.get(d).copied().unwrap_or(0);
                        // "rounded down (never more, and less by under one unit per farm-epoch)":
                        // an integer within (exact - 1, exact] is floor(exact), so the payment
                        // must equal the sum of the per-farm-epoch floors exactly
                        if p != exp {
                            errs.push(json!({"denom": d, "paid": p.to_string(), "sum_of_floored_shares": exp.to_string(), "farm_epochs": n}));
                        }
                    }
                    let span = until.saturating_sub(last.unwrap_or(0));
                    let abs = hash_of(&(span.min(20), r.by_total_floor.len(), last.is_some(), until_epoch.is_some()));
                    if errs.is_empty() {
                        if !r.by_total_floor.is_empty() {
                            rep.held_rich("share_exact", abs, || json!({"user": w.name_of(&user), "epochs": format!("({:?}, {until}]", last), "paid": paid.iter().map(|(d, a)| format!("{a}{d}")).collect::<Vec<_>>(), "farm_epochs": r.farm_epochs}));
                        } else {
                            rep.count("share_exact", "nothing_due_nothing_paid");
                        }
                    } else {
                        rep.failed(
                            "share_exact",
                            None,
                            format!("{} claimed epochs ({:?}, {until}]: payment is not emission x weight / total weight per farm-epoch: {}", w.name_of(&user), last, serde_json::to_string(&errs).unwrap()),
                            witness(json!({"user": w.name_of(&user), "last_claimed": last, "until": until, "mismatch": errs,
                                           "ledger_weights": self.ledger.w.iter().filter(|((u, _), _)| *u == user).map(|((_, lp), h)| (lp.clone(), h.iter().map(|(e, x)| (e.to_string(), x.to_string())).collect::<BTreeMap<_, _>>())).collect::<BTreeMap<_, _>>(),
                                           "contract_totals": s.fpre.weights.iter().filter(|((a, _), _)| *a == fm_addr).map(|((_, lp), h)| (lp.clone(), h.iter().map(|(e, x)| (e.to_string(), x.to_string())).collect::<BTreeMap<_, _>>())).collect::<BTreeMap<_, _>>(),
                                           "farms": s.fpre.farms.values().map(|f| format!("{} lp {} {}..{} rate {} pays {}", f.identifier, f.lp_denom, f.start_epoch, f.preliminary_end_epoch, f.emission_rate, f.farm_asset.denom)).collect::<Vec<_>>()})),
                        );
                    }
                    self.ledger.record_claim(&user, until.max(last.unwrap_or(0)));
                }
            }
        } else if s.out.is_ok() {
            self.ledger.observe_op(&fm_addr, s.fpre, s.fpost);
        }
        let _ = fobserve as fn(&World) -> crate::wfarm::FObs;
    }
}
