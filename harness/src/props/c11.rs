//! C11 — farm lifecycle conserves funds and respects owners and limits.

use std::collections::BTreeMap;

use cosmwasm_std::{coin, Coin};
use mantra_dex_std::farm_manager as fm;
use mantra_dex_std::farm_manager::{Farm, FarmAction, FarmParams};
use rand::rngs::StdRng;
use rand::seq::SliceRandom;
use rand::{Rng, SeedableRng};
use serde_json::json;

use crate::ops::{witness, Monitor, Op, Step};
use crate::report::{hash_of, Reporter};
use crate::wfarm::{farm_funds, farm_op, fm_config_op, fobserve, FObs};
use crate::world::{BankKind, World};

pub struct C11 {
    rng: StdRng,
    pub probe_every: usize,
    n: u32,
}

impl C11 {
    pub fn new(seed: u64) -> C11 {
        C11 {
            rng: StdRng::seed_from_u64(seed ^ 0xC11),
            probe_every: 50,
            n: 0,
        }
    }
}

/// the oracle's own expiry computation: nothing left to claim, or the configured expiration
/// time has passed since the start of the epoch after the farm's last epoch
pub fn expired(w: &World, f: &Farm, cfg: &fm::Config, now: u64) -> bool {
    let left = f.farm_asset.amount.u128().saturating_sub(f.claimed_amount.u128());
    let ends_at = w.cfg.start_time as u128 + (f.preliminary_end_epoch as u128 + 1) * w.cfg.epoch_duration as u128;
    // the contract compares nanosecond timestamps: with a sub-second block time the farm is
    // already expired in the very second its expiration elapses
    let limit = ends_at + (cfg.farm_expiration_time as u128);
    left == 0 || limit < now as u128 || (limit == now as u128 && w.cfg.subsec_nanos > 0)
}

type Leg = (String, String, String, u128); // from, to, denom, amount

fn sends(log: &[crate::world::BankEv]) -> Vec<Leg> {
    let mut v = vec![];
    for e in log {
        if e.kind == BankKind::Send {
            for c in &e.coins {
                v.push((e.from.clone(), e.to.clone(), c.denom.clone(), c.amount.u128()));
            }
        }
    }
    net(v)
}

/// transfers netted per (from, to, denom): what each party ends up with, however many messages
/// carry it
fn net(v: Vec<Leg>) -> Vec<Leg> {
    let mut m: std::collections::BTreeMap<(String, String, String), u128> = std::collections::BTreeMap::new();
    for (f, t, d, a) in v {
        *m.entry((f, t, d)).or_default() += a;
    }
    m.into_iter().filter(|(_, a)| *a > 0).map(|((f, t, d), a)| (f, t, d, a)).collect()
}

fn jlegs(v: &[Leg], w: &World) -> serde_json::Value {
    serde_json::Value::Array(v.iter().map(|(f, t, d, a)| serde_json::Value::String(format!("{} -> {}: {a}{d}", w.name_of(f), w.name_of(t)))).collect())
}

impl C11 {
    /// forked: under each fee configuration a creation with exactly reward + fee attached is
    /// accepted, and one with an additional unrelated coin is not
    fn exact_payment_probe(&mut self, w: &mut World, s: &Step, rep: &mut Reporter) {
        let cur = match s.fpost.epoch {
            Some(e) => e,
            None => return,
        };
        let snap = w.snapshot();
        let owner = w.owner.clone();
        let fee = [coin(0, "uom"), coin(1_000, "uom"), coin(500, "uusdt"), coin(0, "uusdt"), coin(700, "uusdc")].choose(&mut self.rng).unwrap().clone();
        let r = w.apply(&fm_config_op(&owner, |p| p.create_farm_fee = Some(fee.clone())));
        if !r.is_ok() {
            w.restore(&snap);
            return;
        }
        let f = fobserve(w);
        // an LP denom with room for another farm
        let lps: Vec<String> = s.post.pools.values().map(|p| p.info.lp_denom.clone()).collect();
        let lp = lps.iter().find(|lp| f.farms.values().filter(|x| &x.lp_denom == *lp).count() < f.cfg.max_concurrent_farms as usize);
        let lp = match lp {
            Some(l) => l.clone(),
            None => {
                w.restore(&snap);
                return;
            }
        };
        let creator = w.users[self.rng.gen_range(0..w.users.len())].clone();
        let reward_denom = ["uom", "uusdc", "uusdt"].choose(&mut self.rng).unwrap().to_string();
        let reward = coin(self.rng.gen_range(1_000..1_000_000u128), reward_denom.clone());
        self.n += 1;
        let params = FarmParams {
            lp_denom: lp.clone(),
            start_epoch: Some(cur + 1),
            preliminary_end_epoch: Some(cur + 1 + self.rng.gen_range(1..10)),
            curve: None,
            farm_asset: reward.clone(),
            farm_identifier: Some(format!("probe{}", self.n)),
        };
        let base = w.snapshot();
        let exact = farm_funds(&reward, &fee);
        let b0: BTreeMap<String, u128> = w.balances(&creator);
        let out = w.apply(&farm_op(&creator, FarmAction::Create { params: params.clone() }, exact.clone()));
        let fee_class = if fee.amount.is_zero() { if fee.denom == reward_denom { "zero fee, reward denom" } else { "zero fee, other denom" } } else if fee.denom == reward_denom { "fee in reward denom" } else { "fee in another denom" };
        let abs = hash_of(&(fee_class, "exact"));
        let ctx = json!({"fee": fee.to_string(), "reward": reward.to_string(), "attached": exact.iter().map(|c| c.to_string()).collect::<Vec<_>>(), "class": fee_class, "result": out.short()});
        if out.is_ok() {
            // takes exactly reward + fee
            let b1 = w.balances(&creator);
            let mut ok = true;
            for c in &exact {
                // (remainders of the creator's own expired farms may come back in the same message)
                let refunds: u128 = out.log().iter().filter(|e| e.to == creator.as_str() && e.from == w.fm.as_str()).flat_map(|e| e.coins.iter()).filter(|x| x.denom == c.denom).map(|x| x.amount.u128()).sum();
                if b0.get(&c.denom).copied().unwrap_or(0) as i128 - b1.get(&c.denom).copied().unwrap_or(0) as i128 + refunds as i128 != c.amount.u128() as i128 {
                    ok = false;
                }
            }
            if ok {
                rep.held("create_exact_payment_accepted", abs, || ctx.clone());
            } else {
                rep.failed("create_exact_payment_accepted", None, "exact payment accepted but a different amount was taken".into(), witness(ctx));
            }
        } else {
            let kf = if fee.amount.is_zero() && fee.denom != reward_denom { Some("KF-C11-a") } else { None };
            rep.failed("create_exact_payment_accepted", kf, format!("farm creation with exactly reward + fee attached ({fee_class}) refused: {}", out.short()), witness(ctx));
        }
        // less than reward + fee must never be enough: only the fee, only the reward, one unit short
        for (label, short) in [("fee only", true), ("one unit short", false)] {
            w.restore(&base);
            let mut f2 = exact.clone();
            if short {
                // keep nothing of the reward
                if fee.denom == reward_denom {
                    f2 = if fee.amount.is_zero() { vec![] } else { vec![fee.clone()] };
                } else {
                    f2.retain(|c| c.denom != reward_denom);
                }
            } else if let Some(c) = f2.iter_mut().find(|c| c.denom == reward_denom) {
                c.amount -= cosmwasm_std::Uint128::new(1);
            }
            f2.retain(|c| !c.amount.is_zero());
            let mut p2 = params.clone();
            p2.farm_identifier = Some(format!("probe{}u{}", self.n, short as u8));
            let out = w.apply(&farm_op(&creator, FarmAction::Create { params: p2 }, f2.clone()));
            let ctx = json!({"fee": fee.to_string(), "reward": reward.to_string(), "attached": f2.iter().map(|c| c.to_string()).collect::<Vec<_>>(), "variant": label, "class": fee_class, "result": out.short()});
            if out.is_ok() {
                rep.failed("create_takes_exactly", None, format!("farm creation accepted an under-payment ({label}, {fee_class}): the farm is recorded with a budget that was not paid in"), witness(ctx));
            } else {
                rep.held("create_takes_exactly", hash_of(&(fee_class, label)), || ctx.clone());
            }
        }
        // an additional unrelated coin must not be swallowed
        w.restore(&base);
        let mut extra = exact.clone();
        let stray = ["ux12", "uwbtc"].iter().find(|d| !extra.iter().any(|c| c.denom == **d)).unwrap();
        extra.push(coin(9, *stray));
        extra.sort_by(|a, b| a.denom.cmp(&b.denom));
        let before = w.balance(&creator, stray);
        let out = w.apply(&farm_op(&creator, FarmAction::Create { params }, extra.clone()));
        let after = w.balance(&creator, stray);
        let ctx = json!({"fee": fee.to_string(), "reward": reward.to_string(), "attached": extra.iter().map(|c| c.to_string()).collect::<Vec<_>>(), "class": fee_class, "result": out.short()});
        if out.is_ok() && after < before {
            let kf = if fee.amount.is_zero() && fee.denom != reward_denom { Some("KF-C11-a") } else { None };
            rep.failed("create_takes_exactly", kf, format!("farm creation accepted an unrelated coin and kept it ({fee_class})"), witness(ctx));
        } else {
            rep.held("create_takes_exactly", hash_of(&(fee_class, "extra")), || ctx.clone());
        }
        w.restore(&snap);
    }
}

impl C11 {
    /// forked: raise the limit to L, then keep creating farms on one LP token: exactly
    /// L - (unexpired farms already there) creations succeed, the next one is refused
    fn limit_probe(&mut self, w: &mut World, s: &Step, rep: &mut Reporter) {
        let cur = match s.fpost.epoch {
            Some(e) => e,
            None => return,
        };
        let snap = w.snapshot();
        let owner = w.owner.clone();
        let limit = s.fpost.cfg.max_concurrent_farms + self.rng.gen_range(0..14);
        let fee = coin(0, "uom");
        let r = w.apply(&fm_config_op(&owner, |p| {
            p.max_concurrent_farms = Some(limit);
            p.create_farm_fee = Some(fee.clone());
        }));
        if !r.is_ok() {
            w.restore(&snap);
            return;
        }
        let lps: Vec<String> = s.post.pools.values().map(|p| p.info.lp_denom.clone()).collect();
        let lp = match lps.choose(&mut self.rng) {
            Some(l) => l.clone(),
            None => {
                w.restore(&snap);
                return;
            }
        };
        let f0 = fobserve(w);
        let live0 = f0.farms.values().filter(|x| x.lp_denom == lp && !expired(w, x, &f0.cfg, f0.time)).count() as u32;
        let creator = w.users[self.rng.gen_range(0..w.users.len())].clone();
        let mut accepted = 0u32;
        let mut refused_as = String::new();
        for k in 0..(limit + 3) {
            self.n += 1;
            let reward = coin(1_000 + k as u128, "uusdc");
            let out = w.apply(&farm_op(
                &creator,
                FarmAction::Create { params: FarmParams { lp_denom: lp.clone(), start_epoch: Some(cur + 1), preliminary_end_epoch: Some(cur + 3), curve: None, farm_asset: reward.clone(), farm_identifier: Some(format!("lim{}", self.n)) } },
                farm_funds(&reward, &fee),
            ));
            if out.is_ok() {
                accepted += 1;
            } else {
                refused_as = out.short();
                break;
            }
        }
        let f1 = fobserve(w);
        let live1 = f1.farms.values().filter(|x| x.lp_denom == lp && !expired(w, x, &f1.cfg, f1.time)).count() as u32;
        let expect = limit.saturating_sub(live0);
        let ctx = json!({"limit": limit, "unexpired_before": live0, "creations_accepted": accepted, "unexpired_after": live1, "next_refused_with": refused_as});
        if accepted == expect && live1 <= limit {
            rep.held("limit_probe", hash_of(&(limit.min(16), live0.min(4))), || ctx.clone());
        } else {
            rep.failed("limit_probe", None, format!("with max_concurrent_farms = {limit} and {live0} unexpired farms, {accepted} further creations were accepted (expected {expect}); {live1} unexpired farms now"), witness(ctx));
        }
        // with the LP token filled up to the limit the owner tries to lower the limit: whatever
        // the contract answers, no LP token may end up with more unexpired farms than configured
        if live1 > 1 {
            let lower = self.rng.gen_range(1..live1);
            let out = w.apply(&fm_config_op(&owner, |p| p.max_concurrent_farms = Some(lower)));
            let f2 = fobserve(w);
            let live2 = f2.farms.values().filter(|x| x.lp_denom == lp && !expired(w, x, &f2.cfg, f2.time)).count() as u32;
            if live2 > f2.cfg.max_concurrent_farms {
                rep.failed("limit_probe", None, format!("the owner lowered max_concurrent_farms to {lower} ({}) while {live2} unexpired farms run on one LP token", out.short()), witness(json!({"limit_before": limit, "lowered_to": lower, "unexpired": live2})));
            } else {
                rep.held("limit_probe", hash_of(&("lower", out.is_ok())), || json!({"unexpired_farms": live2, "attempt_to_lower_the_limit_to": lower, "answer": out.short(), "limit_now": f2.cfg.max_concurrent_farms}));
            }
        }
        w.restore(&snap);
    }
}

impl Monitor for C11 {
    fn step(&mut self, w: &mut World, s: &Step, rep: &mut Reporter) {
        self.judge(w, s, rep);
        if s.fpre.cfg.fee_collector_addr != w.fc && s.out.is_ok() && matches!(s.op, Op::Fm { msg: fm::ExecuteMsg::ManageFarm { action: FarmAction::Create { .. } }, .. }) {
            rep.count("create_takes_exactly", "creations_while_the_fee_collector_is_a_plain_account");
        }
        if !matches!(s.op, Op::Fm { msg: fm::ExecuteMsg::ManageFarm { .. }, .. }) {
            if s.idx % self.probe_every == 7 {
                self.exact_payment_probe(w, s, rep);
            }
            if s.idx % self.probe_every == 31 {
                self.limit_probe(w, s, rep);
            }
            if s.idx % (4 * self.probe_every) == 113 {
                self.drained_farm_probe(w, s, rep);
            }
        }
    }
}

impl C11 {
    /// one message executed in a fork and judged like any other
    fn forked(&mut self, w: &mut World, op: &Op, idx: usize, rep: &mut Reporter) -> bool {
        let pre = crate::ops::observe(w);
        let fpre = fobserve(w);
        let pre_snap = w.snapshot();
        let out = w.apply(op);
        let post = crate::ops::observe(w);
        let fpost = fobserve(w);
        let st = Step { idx, op, pre_snap: &pre_snap, pre: &pre, out: &out, post: &post, fpre: &fpre, fpost: &fpost };
        self.judge(w, &st, rep);
        out.is_ok()
    }

    /// forked: a farm on an LP token with a single staker is claimed down to exactly zero, then
    /// closed (by its owner, by the contract owner, or on the way of somebody's creation), then
    /// farms are created up to the limit - every message judged by the ordinary clauses
    fn drained_farm_probe(&mut self, w: &mut World, s: &Step, rep: &mut Reporter) {
        use crate::wfarm::{claim_op, pos_op};
        use crate::wpool::{create_pool_op, pool_fee, provide_op};
        use mantra_dex_std::farm_manager::PositionAction;
        use mantra_dex_std::pool_manager::PoolType;
        let snap = w.snapshot();
        self.n += 1;
        let name = format!("solo{}", self.n);
        let (staker, creator, other) = (w.users[0].clone(), w.users[1].clone(), w.users[2].clone());
        let mk = create_pool_op(w, &staker, &["uom", "uusdt"], PoolType::ConstantProduct, pool_fee(0, 30, 0, &[]), Some(&name));
        let mut ok = w.apply(&mk).is_ok();
        let pid = format!("o.{name}");
        ok &= w.apply(&provide_op(&staker, &pid, vec![coin(5_000_000_000, "uom"), coin(1_000_000_000, "uusdt")], None, None, None, None, None)).is_ok();
        let lp = w.lp_denom(&pid);
        ok &= self.forked(w, &pos_op(&staker, PositionAction::Create { identifier: None, unlocking_duration: 86_400, receiver: None }, vec![coin(1_000_000, lp.clone())]), s.idx, rep);
        let cur = fobserve(w).epoch.unwrap_or(0);
        let fee = fobserve(w).cfg.create_farm_fee.clone();
        let k = self.rng.gen_range(2..6u64);
        let rate = self.rng.gen_range(500..5_000u128);
        // every other time the budget is not a multiple of the duration: after every epoch has
        // been claimed in full a remainder below one epoch's emission is left, and the farm is
        // NOT expired before its expiration time has passed
        let odd = self.n % 2 == 1;
        let reward = coin(rate * k as u128 + if odd { self.rng.gen_range(1..k as u128) } else { 0 }, "uusdc");
        // sorts before the identifiers the later creations get
        let drained_id = format!("a{}", self.n);
        ok &= self.forked(w, &farm_op(&creator, FarmAction::Create { params: FarmParams { lp_denom: lp.clone(), start_epoch: Some(cur + 1), preliminary_end_epoch: Some(cur + 1 + k), curve: None, farm_asset: reward.clone(), farm_identifier: Some(drained_id.clone()) } }, farm_funds(&reward, &fee)), s.idx, rep);
        if !ok {
            w.restore(&snap);
            return;
        }
        self.forked(w, &Op::Advance { secs: (k + 2) * w.cfg.epoch_duration }, s.idx, rep);
        self.forked(w, &claim_op(&staker, None), s.idx, rep);
        let f = fobserve(w);
        let drained = f.farms.get(&format!("m-{drained_id}")).map(|x| x.claimed_amount == x.farm_asset.amount).unwrap_or(false);
        rep.count("close", if drained { "drained_farm_probe: farm claimed down to exactly zero" } else { "drained_farm_probe: farm not fully claimed" });
        let owner = w.owner.clone();
        let later = f.epoch.unwrap_or(cur + k + 2);
        let next = |n: u32, who: &cosmwasm_std::Addr, later: u64, lp: &str, fee: &cosmwasm_std::Coin| {
            let r = coin(2_000 + n as u128, "uusdc");
            farm_op(who, FarmAction::Create { params: FarmParams { lp_denom: lp.to_string(), start_epoch: Some(later + 1), preliminary_end_epoch: Some(later + 4), curve: None, farm_asset: r.clone(), farm_identifier: Some(format!("b{n}")) } }, farm_funds(&r, fee))
        };
        let how = (self.n % 3) as usize;
        if odd {
            // nobody closes it: somebody else's creations must leave the unexpired farm alone
            // (judged by `create_conservation`: no unexpired farm disappears during a creation)
            let limit = fobserve(w).cfg.max_concurrent_farms;
            for j in 0..limit.min(3) {
                self.n += 1;
                let n = self.n;
                self.forked(w, &next(n, &other, later, &lp, &fee), s.idx + j as usize, rep);
            }
            let still = fobserve(w).farms.contains_key(&format!("m-{drained_id}"));
            if still {
                rep.held("close", hash_of(&"claimed_to_the_dust_stays"), || json!({"farm": drained_id, "budget": reward.to_string(), "claimed_every_epoch_in_full": true, "still_listed_after_other_creations": true}));
            } else {
                rep.failed("close", None, "a farm whose epochs were all claimed but whose budget has a remainder left was closed by somebody else's creation before its expiration time".to_string(), witness(json!({"farm": drained_id, "budget": reward.to_string()})));
            }
            w.restore(&snap);
            return;
        }
        match how {
            0 => {
                self.forked(w, &farm_op(&creator, FarmAction::Close { farm_identifier: format!("m-{drained_id}") }, vec![]), s.idx, rep);
            }
            1 => {
                self.forked(w, &farm_op(&owner, FarmAction::Close { farm_identifier: format!("m-{drained_id}") }, vec![]), s.idx, rep);
            }
            _ => {} // closed on the way of the first creation below
        }
        let limit = fobserve(w).cfg.max_concurrent_farms;
        for j in 0..(limit + 2) {
            self.n += 1;
            let n = self.n;
            self.forked(w, &next(n, &other, later, &lp, &fee), s.idx + j as usize, rep);
        }
        let f2 = fobserve(w);
        if f2.farms.contains_key(&format!("m-{drained_id}")) {
            rep.failed("close", None, format!("a farm claimed down to zero is still listed after it was closed ({})", ["by its owner", "by the contract owner", "on the way of a creation"][how]), witness(json!({"farm": drained_id})));
        }
        w.restore(&snap);
    }

    fn judge(&mut self, w: &mut World, s: &Step, rep: &mut Reporter) {
        // clause 5 (quiescent): never more unexpired farms per LP token than configured
        let mut per_lp: BTreeMap<String, u32> = BTreeMap::new();
        for f in s.fpost.farms.values() {
            if !expired(w, f, &s.fpost.cfg, s.fpost.time) {
                *per_lp.entry(f.lp_denom.clone()).or_default() += 1;
            }
        }
        for (lp, n) in &per_lp {
            if *n > s.fpost.cfg.max_concurrent_farms {
                rep.failed("limit", None, format!("{n} unexpired farms on {lp}, limit {}", s.fpost.cfg.max_concurrent_farms), witness(json!({"lp": lp, "farms": n})));
            } else {
                rep.held("limit", hash_of(&(n, s.fpost.cfg.max_concurrent_farms, s.op.kind())), || json!({"lp": lp, "unexpired_farms": n, "limit": s.fpost.cfg.max_concurrent_farms}));
            }
        }

        let (sender, action, funds) = match s.op {
            Op::Fm { sender, msg: fm::ExecuteMsg::ManageFarm { action }, funds } => (sender, action, funds),
            _ => return,
        };
        let cfg = &s.fpre.cfg;
        let cur = s.fpre.epoch;
        match action {
            FarmAction::Create { params } => {
                if !s.out.is_ok() {
                    return;
                }
                let cur = cur.unwrap_or(0);
                let explicit = params.farm_identifier.as_ref().map(|i| format!("m-{i}"));
                let id_new: Vec<&String> = s.fpost.farms.keys().filter(|k| !s.fpre.farms.contains_key(*k) || Some(*k) == explicit.as_ref()).collect();
                if id_new.len() != 1 {
                    rep.failed("create_conservation", None, format!("a farm creation added {} farms", id_new.len()), witness(json!({})));
                    return;
                }
                let farm = &s.fpost.farms[id_new[0]];
                let fee = &cfg.create_farm_fee;
                let start = params.start_epoch.unwrap_or(cur + 1);
                let end = params.preliminary_end_epoch.unwrap_or(start + 14);
                let mut errs = vec![];
                if farm.owner != *sender || farm.farm_asset != params.farm_asset || !farm.claimed_amount.is_zero() || farm.start_epoch != start || farm.preliminary_end_epoch != end || farm.lp_denom != params.lp_denom {
                    errs.push(format!("recorded farm {farm:?} does not match the request"));
                }
                if end > start && farm.emission_rate.u128() != params.farm_asset.amount.u128() / (end - start) as u128 {
                    errs.push(format!("emission rate {} != floor(reward / epochs)", farm.emission_rate));
                }
                // expected token movements
                let mut exp: Vec<(String, String, String, u128)> = vec![];
                for c in funds {
                    exp.push((sender.to_string(), w.fm.to_string(), c.denom.clone(), c.amount.u128()));
                }
                if !fee.amount.is_zero() {
                    exp.push((w.fm.to_string(), s.fpre.cfg.fee_collector_addr.to_string(), fee.denom.clone(), fee.amount.u128()));
                    if fee.denom != params.farm_asset.denom {
                        let paid = funds.iter().find(|c| c.denom == fee.denom).map(|c| c.amount.u128()).unwrap_or(0);
                        if paid > fee.amount.u128() {
                            exp.push((w.fm.to_string(), sender.to_string(), fee.denom.clone(), paid - fee.amount.u128()));
                        }
                    }
                }
                // farms that had expired are closed on the way: remainder to THEIR owners
                let mut auto_closed = 0;
                for (id, old) in &s.fpre.farms {
                    if !s.fpost.farms.contains_key(id) || (Some(id) == explicit.as_ref() && s.fpost.farms.get(id) != Some(old)) {
                        auto_closed += 1;
                        if old.lp_denom != params.lp_denom || !expired(w, old, cfg, s.fpre.time) {
                            errs.push(format!("farm {id} (unexpired or other LP) disappeared during a creation"));
                        }
                        let rem = old.farm_asset.amount.u128().saturating_sub(old.claimed_amount.u128());
                        if rem > 0 {
                            exp.push((w.fm.to_string(), old.owner.to_string(), old.farm_asset.denom.clone(), rem));
                        }
                    }
                }
                let exp = net(exp);
                let act = sends(s.out.log());
                // net taken from the creator = reward + fee (refunds of expired own farms aside)
                if act != exp {
                    errs.push("token movements differ from {funds in, fee to collector, refund of overpaid fee, remainders of expired farms to their owners}".into());
                }
                let fee_class = if fee.amount.is_zero() { "zero fee" } else if fee.denom == params.farm_asset.denom { "fee in reward denom" } else { "fee in another denom" };
                let abs = hash_of(&(fee_class, auto_closed, params.farm_identifier.is_some(), funds.len()));
                if errs.is_empty() {
                    rep.held("create_conservation", abs, || json!({"fee": fee.to_string(), "reward": params.farm_asset.to_string(), "movements": jlegs(&act, w), "auto_closed_expired_farms": auto_closed, "emission_rate": farm.emission_rate.to_string()}));
                } else {
                    // an accepted creation that kept an unrelated coin under a zero fee is KF-C11-a
                    let stray = funds.iter().any(|c| c.denom != params.farm_asset.denom && c.denom != fee.denom);
                    let kf = if fee.amount.is_zero() && (stray || funds.len() > 1) && act == exp { Some("KF-C11-a") } else { None };
                    rep.failed("create_conservation", kf, errs.join("; "), witness(json!({"expected": jlegs(&exp, w), "actual": jlegs(&act, w), "farm": format!("{farm:?}")})));
                }
                // "takes exactly reward + fee": anything else attached must have been refused
                let needed = farm_funds(&params.farm_asset, fee);
                let mut got: Vec<Coin> = funds.clone();
                got.sort_by(|a, b| a.denom.cmp(&b.denom));
                let refunded_over = fee.denom != params.farm_asset.denom && !fee.amount.is_zero();
                let exact = got == needed || (refunded_over && got.len() == needed.len() && got.iter().zip(needed.iter()).all(|(g, n)| g.denom == n.denom && (g.amount == n.amount || (g.denom == fee.denom && g.amount > n.amount))));
                if !exact {
                    let kf = if fee.amount.is_zero() { Some("KF-C11-a") } else { None };
                    rep.failed("create_takes_exactly", kf, format!("farm creation accepted funds {:?} where reward + fee = {:?}", got, needed), witness(json!({"attached": got, "needed": needed})));
                } else {
                    rep.held("create_takes_exactly", hash_of(&(fee_class, got.len())), || json!({"attached": got, "needed": needed}));
                }
            }
            FarmAction::Expand { params } => {
                let id = match &params.farm_identifier {
                    Some(i) => i,
                    None => return,
                };
                let old = match s.fpre.farms.get(id) {
                    Some(f) => f,
                    None => return,
                };
                if s.out.is_ok() {
                    let new = match s.fpost.farms.get(id) {
                        Some(f) => f,
                        None => {
                            rep.failed("expand", None, "expanded farm vanished".into(), witness(json!({})));
                            return;
                        }
                    };
                    let mut errs = vec![];
                    if old.owner != *sender {
                        errs.push("expanded by someone who is not the farm's owner".to_string());
                    }
                    if cur.map(|c| c >= old.preliminary_end_epoch).unwrap_or(true) {
                        errs.push("expanded at or after its end".to_string());
                    }
                    if expired(w, old, cfg, s.fpre.time) {
                        errs.push("expanded although expired".to_string());
                    }
                    let attached = funds.iter().find(|c| c.denom == old.farm_asset.denom).map(|c| c.amount.u128()).unwrap_or(0);
                    if funds.len() != 1 || attached != params.farm_asset.amount.u128() {
                        errs.push("attached funds differ from the declared amount".to_string());
                    }
                    if new.farm_asset.amount.u128() != old.farm_asset.amount.u128() + attached {
                        errs.push(format!("budget {} -> {} with {attached} attached", old.farm_asset.amount, new.farm_asset.amount));
                    }
                    let rate = old.emission_rate.u128().max(1);
                    if new.preliminary_end_epoch as u128 != old.preliminary_end_epoch as u128 + attached / rate || attached % rate != 0 {
                        errs.push(format!("end {} -> {} for {attached} at rate {rate}", old.preliminary_end_epoch, new.preliminary_end_epoch));
                    }
                    if new.claimed_amount != old.claimed_amount || new.emission_rate != old.emission_rate || new.owner != old.owner || new.start_epoch != old.start_epoch || new.lp_denom != old.lp_denom || new.identifier != old.identifier || new.farm_asset.denom != old.farm_asset.denom || new.curve != old.curve {
                        errs.push("other farm fields changed".to_string());
                    }
                    if s.post.bal(&w.fm, &old.farm_asset.denom) != s.pre.bal(&w.fm, &old.farm_asset.denom) + attached {
                        errs.push("farm manager balance did not grow by the attached amount".to_string());
                    }
                    if errs.is_empty() {
                        rep.held("expand", hash_of(&("ok", attached / rate)), || json!({"farm": id, "attached": attached.to_string(), "rate": rate.to_string(), "end": [old.preliminary_end_epoch, new.preliminary_end_epoch]}));
                    } else {
                        rep.failed("expand", None, errs.join("; "), witness(json!({"before": format!("{old:?}"), "after": format!("{new:?}")})));
                    }
                } else if old.owner != *sender {
                    rep.held("expand", hash_of(&"stranger"), || json!({"farm": id, "by": "not the owner", "result": s.out.short()}));
                }
            }
            FarmAction::Close { farm_identifier } => {
                let old = match s.fpre.farms.get(farm_identifier) {
                    Some(f) => f,
                    None => return,
                };
                let allowed = old.owner == *sender || *sender == w.owner;
                if s.out.is_ok() {
                    let mut errs = vec![];
                    if !allowed {
                        errs.push("closed by someone who is neither the farm's owner nor the contract owner".to_string());
                    }
                    if s.fpost.farms.contains_key(farm_identifier) {
                        errs.push("farm still listed".to_string());
                    }
                    let rem = old.farm_asset.amount.u128().saturating_sub(old.claimed_amount.u128());
                    let mut exp = vec![];
                    if rem > 0 {
                        exp.push((w.fm.to_string(), old.owner.to_string(), old.farm_asset.denom.clone(), rem));
                    }
                    let act = sends(s.out.log());
                    if act != exp {
                        errs.push("refund differs from exactly the unclaimed remainder to the farm's owner".to_string());
                    }
                    for (id, f) in &s.fpre.farms {
                        if id != farm_identifier && s.fpost.farms.get(id) != Some(f) {
                            errs.push(format!("another farm ({id}) changed"));
                        }
                    }
                    let by = if old.owner == *sender { "farm owner" } else { "contract owner" };
                    if errs.is_empty() {
                        rep.held("close", hash_of(&(by, rem == 0)), || json!({"farm": farm_identifier, "closed_by": by, "refund": jlegs(&act, w)}));
                    } else {
                        rep.failed("close", None, errs.join("; "), witness(json!({"farm": format!("{old:?}"), "expected": jlegs(&exp, w), "actual": jlegs(&act, w)})));
                    }
                } else if !allowed {
                    rep.held("close", hash_of(&"stranger"), || json!({"farm": farm_identifier, "by": "stranger", "result": s.out.short()}));
                } else if funds.is_empty() {
                    rep.failed("close", None, format!("farm owner / contract owner could not close farm {farm_identifier}: {}", s.out.short()), witness(json!({})));
                }
            }
        }
        let _ = FObs::clone;
    }
}
