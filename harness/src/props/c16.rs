//! C16 — pool creation charges exact fees; pool parameters are unique and immutable.

use std::collections::{BTreeMap, BTreeSet};

use cosmwasm_std::{coin, Coin, Decimal};
use mantra_dex_std::fee::PoolFee;
use mantra_dex_std::pool_manager as pm;
use mantra_dex_std::pool_manager::PoolType;
use rand::rngs::StdRng;
use rand::seq::SliceRandom;
use rand::{Rng, SeedableRng};
use serde_json::json;

use crate::ops::{observe, witness, Monitor, Op, Step};
use crate::props::c01::aggregate;
use crate::report::{hash_of, Reporter};
use crate::world::{BankKind, World};
use crate::wpool::{creation_funds, pool_fee};

pub struct C16 {
    rng: StdRng,
    first_seen: BTreeMap<String, (Vec<String>, Vec<u8>, PoolType, PoolFee, String)>,
    n_pools: usize,
    probe_n: u32,
}

impl C16 {
    pub fn new(seed: u64) -> C16 {
        C16 {
            rng: StdRng::seed_from_u64(seed ^ 0xC16),
            first_seen: BTreeMap::new(),
            n_pools: 0,
            probe_n: 0,
        }
    }
}

/// independent statement of what a well-formed pool creation is (funds aside)
pub fn well_formed(denoms: &[String], decimals: &[u8], fees: &PoolFee, ty: &PoolType, id: &Option<String>) -> Result<(), &'static str> {
    let n = denoms.len();
    match ty {
        PoolType::ConstantProduct => {
            if n != 2 {
                return Err("constant product needs exactly 2 assets");
            }
        }
        PoolType::StableSwap { amp } => {
            if !(2..=4).contains(&n) {
                return Err("stableswap needs 2-4 assets");
            }
            if *amp == 0 {
                return Err("amplification must be > 0");
            }
        }
    }
    if decimals.len() != n {
        return Err("decimals do not match assets");
    }
    let set: BTreeSet<&String> = denoms.iter().collect();
    if set.len() != n {
        return Err("duplicate assets");
    }
    let mut total = Decimal::zero();
    for f in [&fees.protocol_fee, &fees.swap_fee, &fees.burn_fee].into_iter().chain(fees.extra_fees.iter()) {
        if f.share >= Decimal::one() {
            return Err("a fee of 100% or more");
        }
        total += f.share;
    }
    if total > Decimal::percent(20) {
        return Err("total fees above 20%");
    }
    if let Some(id) = id {
        let full = format!("o.{id}");
        if full.len() >= 42 || !full.chars().all(|c| c.is_ascii_alphanumeric() || c == '/' || c == '.') {
            return Err("malformed identifier");
        }
    }
    Ok(())
}

fn exact_funds(funds: &[Coin], needed: &[Coin]) -> bool {
    let a = aggregate(funds);
    let mut b = aggregate(needed);
    b.retain(|_, v| *v > 0);
    let mut a2 = a.clone();
    a2.retain(|_, v| *v > 0);
    a2 == b && funds.iter().all(|c| !c.amount.is_zero())
}

impl C16 {
    /// forked matrix: token-factory fee configuration x attached funds
    fn payment_matrix(&mut self, w: &mut World, rep: &mut Reporter) {
        let snap = w.snapshot();
        let pm_fc = crate::ops::observe(w).pm_fc;
        let saved_tf = w.tf_fees.borrow().clone();
        let tf_cfgs: Vec<Vec<Coin>> = vec![
            vec![],
            vec![coin(1_000, "uom")],
            vec![coin(500, "uusdc")],
            vec![coin(1_000, "uom"), coin(300, "uusdt")],
            vec![coin(7, "uusdt"), coin(9, "uwbtc")],
        ];
        let fee_cfgs = [coin(0, "uom"), coin(1_000, "uom"), coin(2_500, "uusdc")];
        let tf = tf_cfgs.choose(&mut self.rng).unwrap().clone();
        let fee = fee_cfgs.choose(&mut self.rng).unwrap().clone();
        w.set_tf_fees(tf.clone());
        let owner = w.owner.clone();
        let c = w.pm.clone();
        let r = w.exec(
            &owner,
            &c,
            &pm::ExecuteMsg::UpdateConfig {
                fee_collector_addr: None,
                farm_manager_addr: None,
                pool_creation_fee: Some(fee.clone()),
                feature_toggle: None,
            },
            &[],
        );
        if !r.is_ok() {
            w.set_tf_fees(saved_tf);
            w.restore(&snap);
            return;
        }
        let base = w.snapshot();
        let needed = creation_funds(w);
        let user = w.users[self.rng.gen_range(0..w.users.len())].clone();
        self.probe_n += 1;
        let variants: Vec<(&str, Vec<Coin>)> = {
            let mut v: Vec<(&str, Vec<Coin>)> = vec![("exact", needed.clone()), ("nothing", vec![])];
            if let Some(first) = needed.first() {
                let mut short = needed.clone();
                short[0].amount = first.amount.checked_sub(1u128.into()).unwrap_or_default();
                short.retain(|c| !c.amount.is_zero());
                v.push(("short_by_one", short));
                let mut over = needed.clone();
                over[0].amount += cosmwasm_std::Uint128::new(1);
                v.push(("over_by_one", over));
                if needed.len() > 1 {
                    let mut miss = needed.clone();
                    miss.pop();
                    v.push(("one_coin_missing", miss));
                    let mut over2 = needed.clone();
                    let l = over2.len() - 1;
                    over2[l].amount += cosmwasm_std::Uint128::new(5);
                    v.push(("over_on_last_coin", over2));
                }
            }
            let mut extra = needed.clone();
            if !extra.iter().any(|c| c.denom == "ux12") {
                extra.push(coin(3, "ux12"));
                extra.sort_by(|a, b| a.denom.cmp(&b.denom));
                v.push(("extra_unrelated_coin", extra));
            }
            v
        };
        for (name, funds) in variants {
            w.restore(&base);
            let pre = observe(w);
            let id = format!("pay{}", self.probe_n);
            let op = Op::Pm {
                sender: user.clone(),
                msg: pm::ExecuteMsg::CreatePool {
                    asset_denoms: vec!["uom".into(), "uusdt".into()],
                    asset_decimals: vec![6, 6],
                    pool_fees: pool_fee(10, 20, 0, &[]),
                    pool_type: PoolType::ConstantProduct,
                    pool_identifier: Some(id.clone()),
                },
                funds: funds.clone(),
            };
            let out = w.apply(&op);
            let post = observe(w);
            let should = exact_funds(&funds, &needed);
            let abs = hash_of(&(name, format!("{tf:?}"), fee.to_string()));
            let ctx = json!({"variant": name, "token_factory_fees": tf.iter().map(|c| c.to_string()).collect::<Vec<_>>(), "pool_creation_fee": fee.to_string(),
                             "attached": funds.iter().map(|c| c.to_string()).collect::<Vec<_>>(), "result": out.short()});
            if out.is_ok() != should {
                rep.failed("creation_payment", None, format!("pool creation with funds variant '{name}' (needed {:?}): accepted={}", needed, out.is_ok()), witness(ctx));
                continue;
            }
            if !out.is_ok() {
                rep.held("creation_payment", abs, || ctx.clone());
                continue;
            }
            // accepted: where did the money go
            let mut problems = vec![];
            let to_fc: u128 = out.log().iter().filter(|e| e.kind == BankKind::Send && e.to == pm_fc.as_str() && e.from == w.pm.as_str()).flat_map(|e| e.coins.iter()).filter(|c| c.denom == fee.denom).map(|c| c.amount.u128()).sum();
            if to_fc != fee.amount.u128() {
                problems.push(format!("fee collector received {to_fc}{}, creation fee is {}", fee.denom, fee));
            }
            for d in post.bal.get(w.pm.as_str()).map(|m| m.keys().cloned().collect::<Vec<_>>()).unwrap_or_default() {
                if post.bal(&w.pm, &d) != pre.bal(&w.pm, &d) {
                    problems.push(format!("pool manager kept {} of {d}", post.bal(&w.pm, &d) as i128 - pre.bal(&w.pm, &d) as i128));
                }
            }
            for c in &needed {
                let spent = pre.bal(&user, &c.denom) - post.bal(&user, &c.denom);
                if spent != c.amount.u128() {
                    problems.push(format!("creator paid {spent}{} instead of {}", c.denom, c));
                }
            }
            for c in &tf {
                let burned = pre.total(&c.denom) - post.total(&c.denom);
                if burned != c.amount.u128() {
                    problems.push(format!("token factory charged {burned}{} instead of {}", c.denom, c));
                }
            }
            if problems.is_empty() {
                rep.held("creation_payment", abs, || ctx.clone());
            } else {
                rep.failed("creation_payment", None, problems.join("; "), witness(ctx));
            }
        }
        // an explicit identifier that looks like a generated one can never collide with it
        w.restore(&base);
        let next_auto = format!("p.{}", self.n_pools + 50);
        let _ = next_auto;
        w.set_tf_fees(saved_tf);
        w.restore(&snap);
    }
}

impl Monitor for C16 {
    fn step(&mut self, w: &mut World, s: &Step, rep: &mut Reporter) {
        // validity of real creation attempts
        if let Op::Pm { msg: pm::ExecuteMsg::CreatePool { asset_denoms, asset_decimals, pool_fees, pool_type, pool_identifier }, funds, .. } = s.op {
            let needed = {
                let post = w.snapshot();
                w.restore(s.pre_snap);
                let n = creation_funds(w);
                w.restore(&post);
                n
            };
            let wf = well_formed(asset_denoms, asset_decimals, pool_fees, pool_type, pool_identifier);
            let exists = pool_identifier.as_ref().map(|id| s.pre.pools.contains_key(&format!("o.{id}"))).unwrap_or(false);
            let paid = exact_funds(funds, &needed);
            let should = wf.is_ok() && !exists && paid;
            let class = match (&wf, exists, paid) {
                (Err(e), _, _) => *e,
                (_, true, _) => "identifier already used",
                (_, _, false) => "funds not exact",
                _ => "valid",
            };
            let abs = hash_of(&(class, asset_denoms.len(), matches!(pool_type, PoolType::ConstantProduct), s.out.is_ok()));
            if s.out.is_ok() == should {
                rep.held("validity", abs, || json!({"class": class, "assets": asset_denoms, "type": format!("{pool_type:?}"), "identifier": pool_identifier, "accepted": s.out.is_ok()}));
            } else {
                rep.failed("validity", None, format!("pool creation of class '{class}' accepted={} ({})", s.out.is_ok(), s.out.short()),
                    witness(json!({"assets": asset_denoms, "decimals": asset_decimals, "fees": pool_fees, "type": format!("{pool_type:?}"), "identifier": pool_identifier, "funds": funds, "needed": needed})));
            }
        }

        // uniqueness + immutability at every quiescent point
        let mut ids = BTreeSet::new();
        let mut lps = BTreeSet::new();
        for (id, p) in &s.post.pools {
            ids.insert(id.clone());
            if !lps.insert(p.info.lp_denom.clone()) {
                rep.failed("unique", None, format!("LP denom {} used by two pools", p.info.lp_denom), witness(json!({"pool": id})));
            }
            if id != &p.info.pool_identifier || !(id.starts_with("o.") || id.starts_with("p.")) {
                rep.failed("unique", None, format!("pool stored under {id} reports identifier {}", p.info.pool_identifier), witness(json!({"pool": id})));
            }
            // the i-th asset is the i-th denom, to which the i-th decimals entry refers: that is
            // how the pool's assets carry their decimals
            let order: Vec<&String> = p.info.assets.iter().map(|c| &c.denom).collect();
            if order != p.info.asset_denoms.iter().collect::<Vec<_>>() {
                rep.failed("asset_order", None, format!("pool {id}: assets are listed as {:?} but the creation-time denoms/decimals are {:?}/{:?}: every asset now carries another asset's decimals", order, p.info.asset_denoms, p.info.asset_decimals),
                    witness(json!({"pool": id, "assets": order, "asset_denoms": p.info.asset_denoms, "asset_decimals": p.info.asset_decimals})));
            } else {
                rep.held("asset_order", hash_of(&(id, s.op.kind())), || json!({"pool": id, "assets_in_creation_order": order}));
            }
            let cur = (p.info.asset_denoms.clone(), p.info.asset_decimals.clone(), p.info.pool_type.clone(), p.info.pool_fees.clone(), p.info.lp_denom.clone());
            match self.first_seen.get(id) {
                None => {
                    // a new pool: everything enabled, expected LP denom
                    let st = &p.info.status;
                    if !(st.swaps_enabled && st.deposits_enabled && st.withdrawals_enabled) {
                        rep.failed("immutable", None, format!("new pool {id} does not start with everything enabled"), witness(json!({"pool": id})));
                    }
                    if p.info.lp_denom != w.lp_denom(id) {
                        rep.failed("unique", None, format!("pool {id} has LP denom {}", p.info.lp_denom), witness(json!({"pool": id})));
                    }
                    rep.held("unique", hash_of(&("new", id.starts_with("o."))), || json!({"new_pool": id, "lp": p.info.lp_denom, "pools_now": s.post.pools.len()}));
                    self.first_seen.insert(id.clone(), cur);
                }
                Some(f) => {
                    let mut a: Vec<String> = p.info.assets.iter().map(|c| c.denom.clone()).collect();
                    let mut b = f.0.clone();
                    a.sort();
                    b.sort();
                    if *f != cur || a != b {
                        rep.failed("immutable", None, format!("pool {id}: assets/decimals/type/fees/LP denom changed after creation"), witness(json!({"pool": id, "first_seen": format!("{f:?}"), "now": format!("{cur:?}")})));
                    } else {
                        rep.held("immutable", hash_of(&(id, s.op.kind())), || json!({"pool": id, "after": s.op.kind(), "unchanged": ["assets", "decimals", "type", "fees", "lp_denom"]}));
                    }
                }
            }
        }
        if s.post.pools.len() < self.n_pools || self.first_seen.keys().any(|k| !ids.contains(k)) {
            rep.failed("immutable", None, "a pool was removed".into(), witness(json!({"pools_before": self.n_pools, "pools_now": s.post.pools.len()})));
        }
        self.n_pools = s.post.pools.len();

        if s.idx % 25 == 3 {
            self.payment_matrix(w, rep);
        }
        if s.idx % 40 == 17 {
            self.reuse_probe(w, s, rep);
        }
    }
}

impl C16 {
    /// forked: CreatePool naming an identifier that is taken, with the same assets, the same
    /// assets in another order, other assets, another number of assets and another pool type;
    /// tried under the faithful token factory and under a lenient one (which, like the
    /// repository's own test mock, does not refuse a denom that exists) - the pool manager must
    /// refuse by itself and leave the existing pool as it is
    fn reuse_probe(&mut self, w: &mut World, s: &Step, rep: &mut Reporter) {
        let taken: Vec<&crate::ops::PoolView> = s.post.pools.values().filter(|p| p.info.pool_identifier.starts_with("o.")).collect();
        let p = match taken.choose(&mut self.rng) {
            Some(p) => *p,
            None => return,
        };
        let bare = p.info.pool_identifier.trim_start_matches("o.").to_string();
        let snap = w.snapshot();
        let user = w.users[self.rng.gen_range(0..w.users.len())].clone();
        let same: Vec<String> = p.info.asset_denoms.clone();
        let mut reversed = same.clone();
        reversed.reverse();
        let all: Vec<String> = w.cfg.denoms.iter().map(|(d, _)| d.clone()).collect();
        let other: Vec<String> = all.iter().filter(|d| !same.contains(d)).take(2).cloned().collect();
        let three: Vec<String> = all.iter().take(3).cloned().collect();
        let variants: Vec<(&str, Vec<String>, PoolType)> = vec![
            ("same assets", same.clone(), p.info.pool_type.clone()),
            ("same assets, other order", reversed, p.info.pool_type.clone()),
            ("other assets", other, PoolType::ConstantProduct),
            ("three assets", three, PoolType::StableSwap { amp: 100 }),
        ];
        for lenient in [false, true] {
            for (what, denoms, ty) in &variants {
                if denoms.len() < 2 {
                    continue;
                }
                w.tf_lenient.set(lenient);
                let dn: Vec<&str> = denoms.iter().map(|d| d.as_str()).collect();
                let out = w.apply(&crate::wpool::create_pool_op(w, &user, &dn, ty.clone(), crate::wpool::pool_fee(1, 2, 3, &[]), Some(&bare)));
                w.tf_lenient.set(false);
                let after = crate::ops::observe(w);
                let unchanged = after.pools.get(&p.info.pool_identifier).map(|q| q.info == p.info).unwrap_or(false) && after.pools.len() == s.post.pools.len();
                w.restore(&snap);
                let abs = hash_of(&(what, lenient, p.is_cp()));
                if !out.is_ok() && unchanged {
                    rep.held("identifier_reuse", abs, || json!({"identifier": bare, "request": what, "lenient_token_factory": lenient, "result": out.short()}));
                } else {
                    rep.failed("identifier_reuse", None, format!("CreatePool naming the taken identifier {bare} ({what}, lenient token factory: {lenient}): accepted={} and the existing pool is unchanged={unchanged}", out.is_ok()),
                        witness(json!({"identifier": bare, "request": what, "denoms": denoms, "lenient_token_factory": lenient, "result": out.short()})));
                }
            }
        }
        w.restore(&snap);
    }
}
