//! C14 — single-asset deposit equals swap-half-then-deposit, is atomic and leaves no residue.

use std::collections::BTreeMap;

use cosmwasm_std::{coin, Addr, Api, Coin};
use mantra_dex_std::farm_manager::Position;
use mantra_dex_std::pool_manager as pm;
use serde_json::json;

use crate::farmobs::all_positions;
use crate::ops::{observe, witness, Monitor, Obs, Op, Step};
use crate::poolev::{parse_events, PoolEv};
use crate::props::c01::aggregate;
use crate::report::{hash_of, Reporter};
use crate::world::World;
use crate::wpool::{provide_op, swap_op, toggle_op};

#[derive(Default)]
pub struct C14 {
    pub faults_every: usize,
    n_single_ok: usize,
}

impl C14 {
    pub fn new() -> C14 {
        C14 {
            faults_every: 3,
            n_single_ok: 0,
        }
    }
}

const BUFFER_KEY: &[u8] = b"single_side_liquidity_provision_buffer";

fn buffer_present(w: &World) -> bool {
    w.app.contract_storage(&w.pm).get(BUFFER_KEY).is_some()
}

fn mag(x: u128) -> i32 {
    if x == 0 {
        -1
    } else {
        (x as f64).log10() as i32
    }
}

#[derive(PartialEq, Debug)]
struct Effects {
    reserves: Vec<(String, u128)>,
    supply: u128,
    fee_collector: BTreeMap<String, u128>,
    ask_total: u128,
    receiver_lp: u128,
    positions: BTreeMap<String, Position>,
}

fn effects(w: &World, obs: &Obs, pool: &str, ask: &str, receiver: &Addr, lp: &str) -> Effects {
    let p = &obs.pools[pool];
    Effects {
        reserves: p.info.asset_denoms.iter().map(|d| (d.clone(), p.reserve(d))).collect(),
        supply: p.supply,
        fee_collector: obs.bal.get(obs.pm_fc.as_str()).cloned().unwrap_or_default(),
        ask_total: w.supply(ask),
        receiver_lp: obs.bal(receiver, lp),
        positions: all_positions(w),
    }
}

impl Monitor for C14 {
    fn step(&mut self, w: &mut World, s: &Step, rep: &mut Reporter) {
        // clause 2: the temporary buffer never survives a message
        if buffer_present(w) {
            rep.failed("no_buffer_left", None, format!("temporary single-asset bookkeeping present after {}", s.op.kind()), witness(json!({"result": s.out.short()})));
        } else {
            rep.held("no_buffer_left", hash_of(&(s.op.kind(), s.out.is_ok())), || json!({"after": s.op.kind(), "result": s.out.short()}));
        }

        let (sender, msg, funds) = match s.op {
            Op::Pm { sender, msg, funds } => (sender, msg, funds),
            _ => return,
        };
        let (liq, swap_slip, receiver, pool, unlocking, lock_id) = match msg {
            pm::ExecuteMsg::ProvideLiquidity {
                liquidity_max_slippage,
                swap_max_slippage,
                receiver,
                pool_identifier,
                unlocking_duration,
                lock_position_identifier,
            } => (liquidity_max_slippage, swap_max_slippage, receiver, pool_identifier, unlocking_duration, lock_position_identifier),
            _ => return,
        };
        let agg = aggregate(funds);
        if agg.len() != 1 {
            return;
        }
        let (denom, amount) = agg.iter().next().map(|(d, a)| (d.clone(), *a)).unwrap();
        let p = match s.pre.pools.get(pool) {
            Some(p) => p,
            None => return,
        };
        if p.canon_index(&denom).is_none() {
            return;
        }
        let accepted = s.out.is_ok();
        let recv_addr: Addr = match receiver {
            Some(r) => w.app.api().addr_validate(r).unwrap_or(sender.clone()),
            None => sender.clone(),
        };

        // clause 3: refused on empty or larger pools
        if p.info.assets.len() != 2 || !p.funded() {
            if accepted {
                rep.failed("refused_when", None, format!("single-asset deposit accepted on pool {pool} ({} assets, funded: {})", p.info.assets.len(), p.funded()), witness(json!({"pool": pool})));
            } else {
                rep.held("refused_when", hash_of(&(p.info.assets.len(), p.funded())), || json!({"pool": pool, "assets": p.info.assets.len(), "funded": p.funded(), "result": s.out.short()}));
            }
            return;
        }

        // clause 4: never locks for / tops up somebody else
        if unlocking.is_some() {
            let pre_positions = {
                let post = w.snapshot();
                w.restore(s.pre_snap);
                let v = all_positions(w);
                w.restore(&post);
                v
            };
            let foreign_target = lock_id.as_ref().and_then(|id| pre_positions.get(id)).map(|pos| pos.receiver != *sender).unwrap_or(false);
            let for_other = recv_addr != *sender;
            if for_other || foreign_target {
                if accepted {
                    rep.failed("no_lock_for_others", None, format!("single-asset locked deposit accepted with receiver != sender ({for_other}) / someone else's position ({foreign_target})"), witness(json!({"pool": pool})));
                } else {
                    rep.held("no_lock_for_others", hash_of(&(for_other, foreign_target)), || json!({"receiver_is_other": for_other, "position_of_other": foreign_target, "result": s.out.short()}));
                }
            }
            if accepted {
                // whatever position changed belongs to the sender
                let post_positions = all_positions(w);
                for (id, pos) in &post_positions {
                    if pre_positions.get(id) != Some(pos) && pos.receiver != *sender {
                        rep.failed("no_lock_for_others", None, format!("position {id} of {} changed by {}'s single-asset deposit", pos.receiver, sender), witness(json!({"position": id})));
                    }
                }
                rep.held("no_lock_for_others", hash_of(&("own", lock_id.is_some())), || json!({"locked_for_sender": true, "lock_id": lock_id}));
            }
        }

        // clause 1: equivalence with the manual two-step, from the same state
        let ask = p.info.asset_denoms.iter().find(|d| **d != denom).unwrap().clone();
        let lp = p.info.lp_denom.clone();
        let half = amount / 2;
        let post_snap = w.snapshot();
        let eff_a = if accepted { Some(effects(w, s.post, pool, &ask, &recv_addr, &lp)) } else { None };
        let user_offer_a = s.post.bal(sender, &denom);
        w.restore(s.pre_snap);
        let sw = w.apply(&swap_op(sender, pool, coin(half, denom.clone()), &ask, None, *swap_slip, None));
        let mut b_ok = sw.is_ok();
        let mut b_why = sw.short();
        if b_ok {
            let proceeds = parse_events(&sw, &w.pm).ok().and_then(|e| e.into_iter().find_map(|x| if let PoolEv::Swap(h) = x { Some(h.return_amount) } else { None })).unwrap_or(0);
            let mut f: Vec<Coin> = vec![coin(half, denom.clone())];
            if proceeds > 0 {
                f.push(coin(proceeds, ask.clone()));
            }
            let pr = w.apply(&provide_op(sender, pool, f, *liq, None, receiver.clone(), *unlocking, lock_id.clone()));
            b_ok = pr.is_ok();
            b_why = pr.short();
        }
        let obs_b = observe(w);
        let abs = hash_of(&(pool, &denom, mag(amount), amount % 2, accepted, unlocking.is_some(), recv_addr == *sender));
        match (accepted, b_ok) {
            (true, true) => {
                let eff_b = effects(w, &obs_b, pool, &ask, &recv_addr, &lp);
                let user_offer_b = obs_b.bal(sender, &denom);
                let ea = eff_a.unwrap();
                let odd_ok = user_offer_a + (amount % 2) == user_offer_b;
                if ea == eff_b && odd_ok {
                    rep.held("equivalence", abs, || {
                        json!({"pool": pool, "deposit": format!("{amount}{denom}"), "odd": amount % 2 == 1, "locked": unlocking.is_some(),
                               "lp_supply_after": ea.supply.to_string(), "reserves_after": ea.reserves.iter().map(|(d, a)| format!("{a}{d}")).collect::<Vec<_>>(), "manual_two_step": "identical"})
                    });
                } else {
                    rep.failed(
                        "equivalence",
                        None,
                        format!("pool {pool}: single-asset deposit of {amount}{denom} differs from swapping {half} and depositing half + proceeds"),
                        witness(json!({"single_asset": format!("{ea:?}"), "manual": format!("{eff_b:?}"), "user_offer_balance": [user_offer_a.to_string(), user_offer_b.to_string()]})),
                    );
                }
            }
            (false, false) => rep.held("equivalence", abs, || json!({"pool": pool, "deposit": format!("{amount}{denom}"), "both_rejected": [s.out.short(), b_why]})),
            (true, false) => rep.failed("equivalence", None, format!("pool {pool}: single-asset deposit of {amount}{denom} accepted but the manual two-step is refused: {b_why}"), witness(json!({"pool": pool}))),
            (false, true) => {
                // the single-asset path has one extra guard the manual path lacks (expected ask
                // balance must stay > 0 after fees); anything else is a difference
                let m = s.out.err_msg().unwrap_or("");
                if s.out.is_abort() || m.contains("Slippage tolerance exceeded") && half > 0 && p.reserve(&ask) <= 2 {
                    rep.count("equivalence", "single_asset_only_guard");
                } else {
                    rep.failed("equivalence", None, format!("pool {pool}: single-asset deposit of {amount}{denom} refused ({}) but the manual two-step succeeds", s.out.short()), witness(json!({"pool": pool})));
                }
            }
        }
        w.restore(&post_snap);

        // clause 5: a failure at any internal step leaves nothing behind
        if accepted {
            self.n_single_ok += 1;
            if self.n_single_ok % self.faults_every == 0 {
                let calls = s.out.calls().to_vec();
                for k in 1..=calls.len() {
                    w.restore(s.pre_snap);
                    w.mon.borrow_mut().fail_at = Some(k);
                    let out = w.apply(s.op);
                    w.mon.borrow_mut().fail_at = None;
                    let same = *w.state() == s.pre_snap.storage;
                    let abs = hash_of(&(format!("{:?}", calls[k - 1]), k, unlocking.is_some()));
                    if !out.is_ok() && same && !buffer_present(w) {
                        rep.held("atomic", abs, || json!({"deposit": format!("{amount}{denom}"), "pool": pool, "failed_call": format!("#{k} {:?}", calls[k - 1]), "of": calls.len(), "result": "rejected, state identical"}));
                    } else {
                        rep.failed(
                            "atomic",
                            None,
                            format!("single-asset deposit with a failure injected at internal call #{k} ({:?}): accepted={} state_unchanged={same}", calls[k - 1], out.is_ok()),
                            witness(json!({"calls": calls.iter().map(|c| format!("{c:?}")).collect::<Vec<_>>(), "k": k})),
                        );
                    }
                }
                // the inner swap refused because swaps are switched off
                w.restore(s.pre_snap);
                let owner = w.owner.clone();
                let t = w.apply(&toggle_op(&owner, pool, Some(false), None, None));
                if t.is_ok() {
                    let base = w.snapshot();
                    let out = w.apply(s.op);
                    if !out.is_ok() && *w.state() == base.storage {
                        rep.held("atomic", hash_of(&("swaps_off", pool)), || json!({"pool": pool, "inner_swap": "disabled", "result": out.short()}));
                    } else {
                        rep.failed("atomic", None, "single-asset deposit with swaps disabled was not refused cleanly".into(), witness(json!({"pool": pool})));
                    }
                }
                w.restore(&post_snap);
            }
        }
    }
}
