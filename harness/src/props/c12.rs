//! C12 — swap quotes equal execution.

use cosmwasm_std::{coin, Coin, Decimal, Uint128};
use mantra_dex_std::pool_manager as pm;
use rand::rngs::StdRng;
use rand::seq::SliceRandom;
use rand::{Rng, SeedableRng};
use serde_json::json;

use crate::ops::{witness, Monitor, Op, PoolView, Step};
use crate::poolev::{parse_events, PoolEv};
use crate::report::{hash_of, Reporter};
use crate::world::World;
use crate::wpool::log_uniform;

pub struct C12 {
    rng: StdRng,
}

impl C12 {
    pub fn new(seed: u64) -> C12 {
        C12 {
            rng: StdRng::seed_from_u64(seed ^ 0xC12),
        }
    }
}

fn is_simple(ops: &[pm::SwapOperation]) -> bool {
    let mut seen: Vec<&String> = vec![];
    for o in ops {
        let pm::SwapOperation::MantraSwap { pool_identifier, .. } = o;
        if seen.contains(&pool_identifier) {
            return false;
        }
        seen.push(pool_identifier);
    }
    true
}

impl C12 {
    fn reverse_cp(&mut self, w: &mut World, s: &Step, rep: &mut Reporter) {
        let cps: Vec<&PoolView> = s.post.pools.values().filter(|p| p.is_cp() && p.funded()).collect();
        let p = match cps.choose(&mut self.rng) {
            Some(p) => *p,
            None => return,
        };
        let (i, j) = if self.rng.gen_bool(0.5) { (0, 1) } else { (1, 0) };
        let ra = p.info.assets[j].amount.u128();
        if ra < 4 {
            return;
        }
        let ask = match self.rng.gen_range(0..6) {
            0 => self.rng.gen_range(1..10u128).min(ra / 2),
            1 => ra / 2,
            _ => log_uniform(&mut self.rng, 1, ra / 2),
        };
        let q: Result<pm::ReverseSimulationResponse, String> = w.query(
            &w.pm,
            &pm::QueryMsg::ReverseSimulation {
                ask_asset: coin(ask, p.info.assets[j].denom.clone()),
                offer_asset_denom: p.info.assets[i].denom.clone(),
                pool_identifier: p.info.pool_identifier.clone(),
            },
        );
        let q = match q {
            Ok(q) => q,
            Err(_) => {
                rep.count("reverse_cp", "reverse_query_failed");
                return;
            }
        };
        let offer = q.offer_amount.u128() + 1;
        let sim: Result<pm::SimulationResponse, String> = w.query(
            &w.pm,
            &pm::QueryMsg::Simulation {
                offer_asset: coin(offer, p.info.assets[i].denom.clone()),
                ask_asset_denom: p.info.assets[j].denom.clone(),
                pool_identifier: p.info.pool_identifier.clone(),
            },
        );
        let sim = match sim {
            Ok(s) => s,
            Err(_) => {
                rep.count("reverse_cp", "forward_query_failed");
                return;
            }
        };
        let got = sim.return_amount.u128();
        let f = &p.info.pool_fees;
        let total_fee = f.swap_fee.share + f.protocol_fee.share + f.burn_fee.share + f.extra_fees.iter().fold(Decimal::zero(), |a, e| a + e.share);
        let abs = hash_of(&(&p.info.pool_identifier, i, (ask as f64).log10() as i32, total_fee.is_zero()));
        if got >= ask {
            rep.held("reverse_cp", abs, || {
                json!({"pool": p.info.pool_identifier, "ask": ask.to_string(), "quoted_offer": q.offer_amount.to_string(), "offering_quote_plus_1_returns": got.to_string()})
            });
        } else {
            let short = ask - got;
            // 1/(1-fees) truncated to 18 decimals: relative error < 2e-18 of the ask
            let band = (ask / 500_000_000_000_000_000u128) + 2;
            let kf = if !total_fee.is_zero() && short <= band { Some("KF-C12-a") } else { None };
            rep.failed(
                "reverse_cp",
                kf,
                format!("pool {}: ReverseSimulation(ask {ask}) quoted {}, offering one unit more returns {got} (short by {short})", p.info.pool_identifier, q.offer_amount),
                witness(json!({"pool": p.info.pool_identifier, "reserves": p.reserves().iter().map(|r| r.to_string()).collect::<Vec<_>>(), "ask": ask.to_string(),
                               "quoted_offer": q.offer_amount.to_string(), "returned": got.to_string(), "short": short.to_string(), "total_fee_share": total_fee.to_string()})),
            );
        }
    }
}

impl Monitor for C12 {
    fn step(&mut self, w: &mut World, s: &Step, rep: &mut Reporter) {
        if let Op::Pm { sender, msg, funds } = s.op {
            match msg {
                pm::ExecuteMsg::Swap { ask_asset_denom, pool_identifier, .. } if funds.len() == 1 => {
                    let post_snap = w.snapshot();
                    w.restore(s.pre_snap);
                    // now and then the fork first switches the pool's deposits and/or withdrawals
                    // off (swaps stay as they are): quotes and swaps must not care
                    if s.idx % 6 == 1 && s.pre.pools.contains_key(pool_identifier) {
                        let admin = w.owner.clone();
                        let (d, wd) = [(Some(false), None), (None, Some(false)), (Some(false), Some(false))][(s.idx / 6) % 3];
                        let t = w.apply(&crate::wpool::toggle_op(&admin, pool_identifier, None, d, wd));
                        rep.count("sim_eq_swap", if t.is_ok() { "fork_with_deposits_or_withdrawals_switched_off" } else { "fork_switch_refused" });
                    }
                    let sim: Result<pm::SimulationResponse, String> = w.query(
                        &w.pm,
                        &pm::QueryMsg::Simulation {
                            offer_asset: funds[0].clone(),
                            ask_asset_denom: ask_asset_denom.clone(),
                            pool_identifier: pool_identifier.clone(),
                        },
                    );
                    let bal0 = w.balance(sender, ask_asset_denom);
                    let c = w.pm.clone();
                    let out = w.exec(
                        sender,
                        &c,
                        &pm::ExecuteMsg::Swap {
                            ask_asset_denom: ask_asset_denom.clone(),
                            belief_price: None,
                            max_slippage: Some(Decimal::percent(50)),
                            receiver: None,
                            pool_identifier: pool_identifier.clone(),
                        },
                        funds,
                    );
                    let bal1 = w.balance(sender, ask_asset_denom);
                    let ptype = s.pre.pools.get(pool_identifier).map(|p| if p.is_cp() { "cp" } else { "ss" }).unwrap_or("none");
                    let abs = hash_of(&(pool_identifier, &funds[0].denom, (funds[0].amount.u128() as f64).log10() as i32, out.is_ok(), sim.is_ok()));
                    match (&sim, out.is_ok()) {
                        (Ok(q), true) => {
                            let evs = parse_events(&out, &w.pm).unwrap_or_default();
                            let sw = evs.iter().find_map(|e| if let PoolEv::Swap(x) = e { Some(x.clone()) } else { None });
                            match sw {
                                Some(x) => {
                                    let same = x.return_amount == q.return_amount.u128()
                                        && x.swap_fee == q.swap_fee_amount.u128()
                                        && x.protocol_fee == q.protocol_fee_amount.u128()
                                        && x.burn_fee == q.burn_fee_amount.u128()
                                        && x.extra_fees == Some(q.extra_fees_amount.u128())
                                        && bal1 - bal0 == q.return_amount.u128();
                                    if same {
                                        rep.held("sim_eq_swap", abs, || {
                                            json!({"pool": pool_identifier, "type": ptype, "offer": funds[0].to_string(), "quote_return": q.return_amount.to_string(),
                                                   "executed_return": x.return_amount.to_string(), "fees": [x.swap_fee.to_string(), x.protocol_fee.to_string(), x.burn_fee.to_string()]})
                                        });
                                    } else {
                                        rep.failed(
                                            "sim_eq_swap",
                                            None,
                                            format!("pool {pool_identifier}: Simulation of {} quoted return {} fees ({},{},{},{}) but the swap paid {} (balance +{}) fees ({},{},{},{:?})",
                                                funds[0], q.return_amount, q.swap_fee_amount, q.protocol_fee_amount, q.burn_fee_amount, q.extra_fees_amount,
                                                x.return_amount, bal1 - bal0, x.swap_fee, x.protocol_fee, x.burn_fee, x.extra_fees),
                                            witness(json!({"pool": pool_identifier, "offer": funds[0].to_string()})),
                                        );
                                    }
                                }
                                None => rep.failed("sim_eq_swap", None, "swap succeeded without a swap event".into(), witness(json!({}))),
                            }
                        }
                        (Err(e), true) => rep.failed(
                            "sim_eq_swap",
                            None,
                            format!("pool {pool_identifier}: Simulation of {} failed ({e}) but the same swap executed", funds[0]),
                            witness(json!({"pool": pool_identifier, "offer": funds[0].to_string()})),
                        ),
                        (Ok(_), false) => {
                            // allowed: the 50% cap, disabled swaps, funds problems; just counted
                            rep.count("sim_eq_swap", "quote_ok_swap_rejected");
                        }
                        (Err(_), false) => {
                            rep.held("sim_eq_swap", abs, || json!({"pool": pool_identifier, "offer": funds[0].to_string(), "both": "query and swap fail"}));
                        }
                    }
                    w.restore(&post_snap);
                }
                pm::ExecuteMsg::ExecuteSwapOperations { operations, .. } if funds.len() == 1 && !operations.is_empty() => {
                    let simple = is_simple(operations);
                    if !simple {
                        rep.count("route_eq", "route_revisits_a_pool_recorded_only");
                        return;
                    }
                    let post_snap = w.snapshot();
                    w.restore(s.pre_snap);
                    let q: Result<pm::SimulateSwapOperationsResponse, String> = w.query(
                        &w.pm,
                        &pm::QueryMsg::SimulateSwapOperations {
                            offer_amount: funds[0].amount,
                            operations: operations.clone(),
                        },
                    );
                    let pm::SwapOperation::MantraSwap { token_out_denom, .. } = operations.last().unwrap();
                    let bal0 = w.balance(sender, token_out_denom);
                    let c = w.pm.clone();
                    let out = w.exec(
                        sender,
                        &c,
                        &pm::ExecuteMsg::ExecuteSwapOperations {
                            operations: operations.clone(),
                            minimum_receive: None,
                            receiver: None,
                            max_slippage: Some(Decimal::percent(50)),
                        },
                        funds,
                    );
                    let bal1 = w.balance(sender, token_out_denom);
                    let abs = hash_of(&(operations.len(), operations.iter().map(|o| o.get_pool_identifer()).collect::<Vec<_>>(), out.is_ok()));
                    match (&q, out.is_ok()) {
                        (Ok(q), true) => {
                            let evs = parse_events(&out, &w.pm).unwrap_or_default();
                            let ret = evs.iter().find_map(|e| if let PoolEv::RouteSummary { return_amount, .. } = e { Some(*return_amount) } else { None });
                            // the input token may equal the output token on cyclic simple routes
                            let delta = if &funds[0].denom == token_out_denom { bal1 + funds[0].amount.u128() - bal0 } else { bal1 - bal0 };
                            // the route summary event is a cross-check only: what counts is what arrives
                            if (ret.is_none() || ret == Some(q.return_amount.u128())) && delta == q.return_amount.u128() {
                                rep.held("route_eq", abs, || {
                                    json!({"hops": operations.len(), "pools": operations.iter().map(|o| o.get_pool_identifer()).collect::<Vec<_>>(),
                                           "offer": funds[0].to_string(), "quoted": q.return_amount.to_string(), "delivered": delta.to_string()})
                                });
                            } else {
                                rep.failed(
                                    "route_eq",
                                    None,
                                    format!("SimulateSwapOperations quoted {} but the route reported {:?} and delivered {}", q.return_amount, ret, delta),
                                    witness(json!({"operations": operations, "offer": funds[0].to_string()})),
                                );
                            }
                        }
                        (Err(e), true) => rep.failed(
                            "route_eq",
                            None,
                            format!("SimulateSwapOperations failed ({e}) but the same route executed"),
                            witness(json!({"operations": operations, "offer": funds[0].to_string()})),
                        ),
                        (Ok(_), false) => rep.count("route_eq", "quote_ok_route_rejected"),
                        (Err(_), false) => rep.held("route_eq", abs, || json!({"hops": operations.len(), "both": "query and route fail"})),
                    }
                    // the quote also holds whatever (satisfiable) minimum_receive, receiver and
                    // tolerance the caller passes along
                    if let (Ok(q), true) = (&q, out.is_ok()) {
                        let qa = q.return_amount.u128();
                        let variants: Vec<(Option<Uint128>, bool)> = vec![(Some(Uint128::new(qa)), false), (Some(Uint128::new(qa.saturating_sub(1))), true), (Some(Uint128::new(qa / 2)), false), (Some(Uint128::zero()), true)];
                        let (min, to_other) = variants[s.idx % variants.len()].clone();
                        let other = w.users[(s.idx / 4) % w.users.len()].clone();
                        let recv = if to_other && other != *sender { other.clone() } else { sender.clone() };
                        w.restore(s.pre_snap);
                        let b0 = w.balance(&recv, token_out_denom);
                        let out2 = w.exec(
                            sender,
                            &c,
                            &pm::ExecuteMsg::ExecuteSwapOperations { operations: operations.clone(), minimum_receive: min, receiver: if recv == *sender { None } else { Some(recv.to_string()) }, max_slippage: Some(Decimal::percent(50)) },
                            funds,
                        );
                        let b1 = w.balance(&recv, token_out_denom);
                        let paid_in = if recv == *sender && &funds[0].denom == token_out_denom { funds[0].amount.u128() } else { 0 };
                        let delta = (b1 + paid_in).saturating_sub(b0);
                        let ret = parse_events(&out2, &w.pm).unwrap_or_default().iter().find_map(|e| if let PoolEv::RouteSummary { return_amount, .. } = e { Some(*return_amount) } else { None });
                        let abs2 = hash_of(&("min", operations.len(), s.idx % variants.len(), recv == *sender));
                        if out2.is_ok() && (ret.is_none() || ret == Some(qa)) && delta == qa {
                            rep.held("route_eq", abs2, || json!({"hops": operations.len(), "minimum_receive": min.map(|m| m.to_string()), "receiver": if recv == *sender { "sender" } else { "another account" }, "quoted": qa.to_string(), "delivered": delta.to_string()}));
                        } else {
                            rep.failed(
                                "route_eq",
                                None,
                                format!("SimulateSwapOperations quoted {qa}; with minimum_receive {:?} the route {} reported {:?} and delivered {delta}", min.map(|m| m.u128()), if out2.is_ok() { "executed," } else { "was refused," }, ret),
                                witness(json!({"operations": operations, "offer": funds[0].to_string(), "minimum_receive": min.map(|m| m.to_string())})),
                            );
                        }
                    }
                    w.restore(&post_snap);
                }
                _ => {}
            }
        }
        if s.idx % 2 == 0 {
            self.reverse_cp(w, s, rep);
        }
        let _: Option<(Coin, Uint128)> = None;
    }
}
