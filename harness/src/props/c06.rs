//! C06 — rewards paid never exceed what a farm has emitted; no early/late/double pay; no
//! claim by one user makes another user's rightful claim fail.

use std::collections::BTreeMap;

use mantra_dex_std::farm_manager as fm;
use num_bigint::BigInt;
use num_traits::Zero;
use serde_json::json;

use crate::exact::bi;
use crate::ledger::{rightful, Ledger};
use crate::ops::{witness, Monitor, Op, Step};
use crate::report::{hash_of, Reporter};
use crate::world::{BankKind, World};

#[derive(Default)]
pub struct C06 {
    pub ledger: Ledger,
}

pub fn paid_to(s: &Step, w: &World, user: &str) -> BTreeMap<String, u128> {
    let mut m = BTreeMap::new();
    for e in s.out.log() {
        if e.kind == BankKind::Send && e.from == w.fm.as_str() && e.to == user {
            for c in &e.coins {
                *m.entry(c.denom.clone()).or_insert(0u128) += c.amount.u128();
            }
        }
    }
    m
}

impl Monitor for C06 {
    fn step(&mut self, w: &mut World, s: &Step, rep: &mut Reporter) {
        let fm_addr = w.fm.to_string();
        // ---- judge claims against the ledger as it stood before this message
        if let Op::Fm { sender, msg: fm::ExecuteMsg::Claim { until_epoch }, funds } = s.op {
            if let (Some(cur), true) = (s.fpre.epoch, funds.is_empty()) {
                let user = sender.to_string();
                let last = self.ledger.last.get(&user).copied();
                let until = until_epoch.unwrap_or(cur);
                let has_open = s.fpre.positions.values().any(|p| p.open && p.receiver == *sender);
                if s.out.is_ok() {
                    let r = rightful(&self.ledger, &fm_addr, s.fpre, &user, last, until);
                    let paid = paid_to(s, w, &user);
                    let mut over = vec![];
                    for (d, a) in &paid {
                        let cap = r.capped.get(d).cloned().unwrap_or_else(BigInt::zero);
                        if bi(*a) > cap {
                            over.push(json!({"denom": d, "paid": a.to_string(), "rightful_at_most": cap.to_string()}));
                        }
                    }
                    let span = until.saturating_sub(last.unwrap_or(0));
                    let abs = hash_of(&(until_epoch.is_some(), last.is_some(), span.min(20), paid.len(), r.capped.len()));
                    if over.is_empty() && !paid.is_empty() {
                        rep.held_rich("no_overpay", abs, || {
                            json!({"user": w.name_of(&user), "claimed_epochs": format!("({:?}, {until}]", last), "paid": paid.iter().map(|(d, a)| format!("{a}{d}")).collect::<Vec<_>>(),
                                   "rightful_at_most": r.capped.iter().map(|(d, a)| format!("{a}{d}")).collect::<Vec<_>>()})
                        });
                    } else if over.is_empty() {
                        rep.held("no_overpay", abs, || {
                            json!({"user": w.name_of(&user), "claimed_epochs": format!("({:?}, {until}]", last), "paid": paid.iter().map(|(d, a)| format!("{a}{d}")).collect::<Vec<_>>(),
                                   "rightful_at_most": r.capped.iter().map(|(d, a)| format!("{a}{d}")).collect::<Vec<_>>()})
                        });
                        if paid.is_empty() && r.capped.values().all(|x| x.is_zero()) {
                            rep.count("no_overpay", "nothing_due_nothing_paid");
                        }
                    } else {
                        rep.failed(
                            "no_overpay",
                            None,
                            format!("{} claimed epochs ({:?}, {until}] and was paid more than its weight share of the emissions: {}", w.name_of(&user), last, serde_json::to_string(&over).unwrap()),
                            witness(json!({"user": w.name_of(&user), "last_claimed": last, "until": until, "overpaid": over,
                                           "ledger_weights": self.ledger.w.iter().filter(|((u, _), _)| *u == user).map(|((_, lp), h)| (lp.clone(), h.iter().map(|(e, x)| (e.to_string(), x.to_string())).collect::<BTreeMap<_, _>>())).collect::<BTreeMap<_, _>>()})),
                        );
                    }
                    self.ledger.record_claim(&user, until.max(last.unwrap_or(0)));
                } else if has_open {
                    // a refused claim: was it somebody else's overpayment that exhausted the farm?
                    let msg = s.out.err_msg().unwrap_or("");
                    if msg.contains("exhausted") || msg.contains("Exhausted") {
                        let valid_until = until <= cur && last.map(|l| until >= l).unwrap_or(true);
                        if valid_until {
                            let r = rightful(&self.ledger, &fm_addr, s.fpre, &user, last, until);
                            let affordable = r.per_farm.iter().all(|(id, amt)| {
                                let f = &s.fpre.farms[id];
                                bi(f.claimed_amount.u128()) + amt <= bi(f.farm_asset.amount.u128())
                            });
                            if affordable {
                                rep.failed(
                                    "no_starvation",
                                    None,
                                    format!("{}'s rightful claim for epochs ({:?}, {until}] fails with '{}' although the farms could afford it", w.name_of(&user), last, msg),
                                    witness(json!({"user": w.name_of(&user), "rightful_per_farm": r.per_farm.iter().map(|(k, v)| (k.clone(), v.to_string())).collect::<BTreeMap<_, _>>(),
                                                   "farms": s.fpre.farms.values().map(|f| format!("{} budget {} claimed {}", f.identifier, f.farm_asset, f.claimed_amount)).collect::<Vec<_>>()})),
                                );
                            }
                        }
                    }
                } else {
                    rep.count("no_overpay", "claim_without_open_position_refused");
                }
                if s.out.is_ok() || !has_open {
                    rep.held("no_starvation", hash_of(&(s.out.is_ok(), has_open)), || json!({"claim": s.out.short()}));
                }
            }
        }
        // ---- nobody is paid rewards outside a claim
        if !matches!(s.op, Op::Fm { msg: fm::ExecuteMsg::Claim { .. }, .. } | Op::Fm { msg: fm::ExecuteMsg::ManageFarm { action: fm::FarmAction::Create { .. } }, .. }) && s.out.is_ok() {
            // (position withdrawals, farm refunds, penalties are C08/C09/C11's business; here: no
            // farm's claimed amount moves without a claim)
            for (id, f) in &s.fpost.farms {
                if let Some(o) = s.fpre.farms.get(id) {
                    if o.claimed_amount != f.claimed_amount {
                        rep.failed("claimed_only_by_claims", None, format!("farm {id} claimed amount changed {} -> {} in a {}", o.claimed_amount, f.claimed_amount, s.op.kind()), witness(json!({})));
                    }
                }
            }
        }
        // ---- cumulative bound per farm, after every message
        if let Some(cur) = s.fpost.epoch {
            for f in s.fpost.farms.values() {
                let elapsed = if cur < f.start_epoch { 0 } else { cur.min(f.preliminary_end_epoch.saturating_sub(1)).saturating_sub(f.start_epoch) + 1 };
                let emitted = bi(f.emission_rate.u128()) * bi(elapsed as u128);
                let abs = hash_of(&(elapsed.min(30), f.claimed_amount.is_zero(), s.op.kind()));
                if bi(f.claimed_amount.u128()) > emitted || f.claimed_amount > f.farm_asset.amount {
                    rep.failed(
                        "cumulative_bound",
                        None,
                        format!("farm {}: claimed {} exceeds emission rate {} x {elapsed} elapsed epochs = {emitted} (budget {})", f.identifier, f.claimed_amount, f.emission_rate, f.farm_asset.amount),
                        witness(json!({"farm": format!("{f:?}"), "current_epoch": cur})),
                    );
                } else {
                    rep.held("cumulative_bound", abs, || json!({"farm": f.identifier, "claimed": f.claimed_amount.to_string(), "emitted_so_far": emitted.to_string(), "budget": f.farm_asset.amount.to_string()}));
                }
            }
        }
        // ---- keep the ledger current
        if s.out.is_ok() && !matches!(s.op, Op::Fm { msg: fm::ExecuteMsg::Claim { .. }, .. }) {
            self.ledger.observe_op(&fm_addr, s.fpre, s.fpost);
        }
    }
}
