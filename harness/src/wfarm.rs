//! W-farm: hostile, seeded workload against the farm manager (pool manager live for LP tokens
//! and locked deposits).

use std::collections::{BTreeMap, VecDeque};

use cosmwasm_std::{coin, Addr, Coin, Decimal, Uint128};
use mantra_dex_std::farm_manager as fm;
use mantra_dex_std::farm_manager::{Farm, FarmAction, FarmParams, Position, PositionAction};
use mantra_dex_std::pool_manager::PoolType;
use rand::rngs::StdRng;
use rand::seq::SliceRandom;
use rand::{Rng, SeedableRng};

use crate::farmobs::{all_farms, all_positions, all_weights, current_epoch, fm_config, last_claimed};
use crate::ops::{Obs, Op};
use crate::world::World;
use crate::wpool::{create_pool_op, log_uniform, pool_fee, provide_op, DURATIONS};

#[derive(Clone, Debug)]
pub struct FObs {
    pub positions: BTreeMap<String, Position>,
    pub farms: BTreeMap<String, Farm>,
    pub weights: BTreeMap<(String, String), BTreeMap<u64, u128>>,
    pub last_claimed: BTreeMap<String, u64>,
    pub cfg: fm::Config,
    pub epoch: Option<u64>,
    pub time: u64,
}

pub fn fobserve(w: &World) -> FObs {
    FObs {
        positions: all_positions(w),
        farms: all_farms(w),
        weights: all_weights(w),
        last_claimed: last_claimed(w),
        cfg: fm_config(w),
        epoch: current_epoch(w),
        time: w.now(),
    }
}

pub fn farm_op(sender: &Addr, action: FarmAction, funds: Vec<Coin>) -> Op {
    let mut funds = funds;
    funds.sort_by(|a, b| a.denom.cmp(&b.denom));
    Op::Fm {
        sender: sender.clone(),
        msg: fm::ExecuteMsg::ManageFarm { action },
        funds,
    }
}

pub fn pos_op(sender: &Addr, action: PositionAction, funds: Vec<Coin>) -> Op {
    Op::Fm {
        sender: sender.clone(),
        msg: fm::ExecuteMsg::ManagePosition { action },
        funds,
    }
}

pub fn claim_op(sender: &Addr, until: Option<u64>) -> Op {
    Op::Fm {
        sender: sender.clone(),
        msg: fm::ExecuteMsg::Claim { until_epoch: until },
        funds: vec![],
    }
}

pub fn fm_config_op(sender: &Addr, f: impl FnOnce(&mut FmCfgPatch)) -> Op {
    let mut p = FmCfgPatch::default();
    f(&mut p);
    Op::Fm {
        sender: sender.clone(),
        msg: fm::ExecuteMsg::UpdateConfig {
            fee_collector_addr: p.fee_collector_addr,
            epoch_manager_addr: p.epoch_manager_addr,
            pool_manager_addr: p.pool_manager_addr,
            create_farm_fee: p.create_farm_fee,
            max_concurrent_farms: p.max_concurrent_farms,
            max_farm_epoch_buffer: p.max_farm_epoch_buffer,
            min_unlocking_duration: p.min_unlocking_duration,
            max_unlocking_duration: p.max_unlocking_duration,
            farm_expiration_time: p.farm_expiration_time,
            emergency_unlock_penalty: p.emergency_unlock_penalty,
        },
        funds: vec![],
    }
}

#[derive(Default)]
pub struct FmCfgPatch {
    pub fee_collector_addr: Option<String>,
    pub epoch_manager_addr: Option<String>,
    pub pool_manager_addr: Option<String>,
    pub create_farm_fee: Option<Coin>,
    pub max_concurrent_farms: Option<u32>,
    pub max_farm_epoch_buffer: Option<u32>,
    pub min_unlocking_duration: Option<u64>,
    pub max_unlocking_duration: Option<u64>,
    pub farm_expiration_time: Option<u64>,
    pub emergency_unlock_penalty: Option<Decimal>,
}

/// funds that exactly pay for creating a farm with `asset` under fee `fee`
pub fn farm_funds(asset: &Coin, fee: &Coin) -> Vec<Coin> {
    let mut v = vec![];
    if fee.denom == asset.denom {
        v.push(coin(asset.amount.u128() + fee.amount.u128(), asset.denom.clone()));
    } else {
        v.push(asset.clone());
        if !fee.amount.is_zero() {
            v.push(fee.clone());
        }
    }
    v.sort_by(|a, b| a.denom.cmp(&b.denom));
    v
}

pub struct FarmGen {
    pub rng: StdRng,
    pub script: VecDeque<Op>,
    pub lps: Vec<String>,
    pub pool_ids: Vec<String>,
    pub n_explicit: u32,
    /// relative weights: advance, farm create, farm expand, farm close, pos create, pos expand,
    /// pos close, withdraw, emergency, claim, config, donate, locked deposit via pm, garbage
    pub weights: [u32; 14],
    pub allow_config: bool,
    pub max_amount: u128,
}

impl FarmGen {
    pub fn new(seed: u64) -> FarmGen {
        FarmGen {
            rng: StdRng::seed_from_u64(seed),
            script: VecDeque::new(),
            lps: vec![],
            pool_ids: vec![],
            n_explicit: 0,
            weights: [16, 7, 4, 3, 14, 6, 9, 6, 4, 16, 3, 2, 4, 3],
            allow_config: true,
            max_amount: 10u128.pow(20),
        }
    }

    /// pools + LP in every user's hands + one running farm, whatever the seed
    pub fn scripted_prefix(&mut self, w: &World) {
        let u0 = w.users[0].clone();
        let mut s: Vec<Op> = vec![];
        s.push(create_pool_op(w, &u0, &["uom", "uusdc"], PoolType::ConstantProduct, pool_fee(10, 30, 0, &[]), Some("a")));
        s.push(create_pool_op(w, &u0, &["uusdc", "uusdt"], PoolType::StableSwap { amp: 100 }, pool_fee(0, 4, 0, &[]), Some("b")));
        s.push(create_pool_op(w, &u0, &["uusdc", "ueth"], PoolType::ConstantProduct, pool_fee(0, 0, 0, &[]), Some("c")));
        self.pool_ids = vec!["o.a".into(), "o.b".into(), "o.c".into()];
        self.lps = self.pool_ids.iter().map(|p| w.lp_denom(p)).collect();
        let t6 = 10u128.pow(6);
        let t18 = 10u128.pow(18);
        for (k, u) in w.users.iter().chain([&w.owner, &w.hostile]).enumerate() {
            let m = (k as u128 + 1) * 1_000;
            s.push(provide_op(u, "o.a", vec![coin(5 * m * t6 * 1_000_000, "uom"), coin(m * t6 * 1_000_000, "uusdc")], None, None, None, None, None));
            s.push(provide_op(u, "o.b", vec![coin(m * t6 * 1_000_000, "uusdc"), coin(m * t6 * 1_000_000, "uusdt")], None, None, None, None, None));
            s.push(provide_op(u, "o.c", vec![coin(3 * m * t6 * 1_000, "uusdc"), coin(m * t18, "ueth")], None, None, None, None, None));
        }
        self.script = s.into();
    }

    fn user(&mut self, w: &World) -> Addr {
        let k = self.rng.gen_range(0..w.users.len() + 2);
        if k == w.users.len() {
            w.owner.clone()
        } else if k == w.users.len() + 1 {
            w.hostile.clone()
        } else {
            w.users[k].clone()
        }
    }

    fn reward_denoms(&self) -> Vec<String> {
        let mut v = vec!["uom".to_string(), "uusdc".to_string(), "uusdt".to_string()];
        v.extend(self.lps.iter().cloned());
        v
    }

    fn gen_advance(&mut self, w: &World, f: &FObs) -> Op {
        let dur = w.cfg.epoch_duration;
        let now = w.now();
        let into = (now - w.cfg.start_time) % dur;
        let secs = match self.rng.gen_range(0..24) {
            0 => 1,
            1 => dur - into - 1,              // one second before the boundary
            2 => dur - into,                  // exactly the boundary
            3 => dur - into + 1,
            4..=7 => dur,
            8 => dur * self.rng.gen_range(2..5),
            9 => {
                // to the unlock second of some closed position (+-1)
                let exp: Vec<u64> = f.positions.values().filter_map(|p| p.expiring_at).filter(|e| *e > now).collect();
                match exp.choose(&mut self.rng) {
                    Some(e) => (e - now + self.rng.gen_range(0..3)).saturating_sub(1).max(1),
                    None => dur,
                }
            }
            10 => dur * self.rng.gen_range(5..40), // past farm ends / expiry
            11 | 12 => self.rng.gen_range(1..dur),
            _ => dur,
        };
        Op::Advance { secs: secs.max(1) }
    }

    fn gen_farm_create(&mut self, w: &World, f: &FObs, obs: &Obs) -> Option<Op> {
        let sender = self.user(w);
        let cur = f.epoch?;
        let lp = self.lps.choose(&mut self.rng)?.clone();
        let denom = self.reward_denoms().choose(&mut self.rng)?.clone();
        let bal = obs.bal(&sender, &denom);
        let start = match self.rng.gen_range(0..8) {
            0 => None,
            1 => Some(cur),                                           // not in the future
            2 => Some(cur + f.cfg.max_farm_epoch_buffer as u64 + 1),  // too far
            3 => Some(cur + f.cfg.max_farm_epoch_buffer as u64),
            _ => Some(cur + self.rng.gen_range(1..4)),
        };
        let s = start.unwrap_or(cur + 1);
        let end = match self.rng.gen_range(0..8) {
            0 => None,
            1 => Some(s),      // start == end
            2 => Some(s + 1),
            // long farms: with a small budget the per-epoch rate is small and the part of the
            // budget lost to rounding can exceed it
            3 => Some(s + if self.rng.gen_range(0..4) == 0 { self.rng.gen_range(400..1200) } else { self.rng.gen_range(30..400) }),
            // practically open-ended farms: nothing bounds the end epoch
            4 if self.rng.gen_bool(0.4) => {
                // the last epochs whose start still fits the chain's nanosecond clock (year 2554):
                // adding the expiration time to it does not
                let last = (18_446_744_073u64 - w.cfg.start_time) / w.cfg.epoch_duration;
                Some(*[300_000_000_000_000u64, u64::MAX / 2, u64::MAX - 1, u64::MAX, last - 1, last - 2, last - self.rng.gen_range(3..40), last, last + 1].choose(&mut self.rng).unwrap())
            }
            _ => Some(s + self.rng.gen_range(2..12)),
        };
        let long = end.map(|e| e > s + 20).unwrap_or(false);
        let amount = match self.rng.gen_range(0..8) {
            0 => 999,
            1 => 1000,
            2 => self.rng.gen_range(1000..1020), // emission rate may round to small values
            3 | 4 if long => self.rng.gen_range(1000..9000),
            _ => log_uniform(&mut self.rng, 1000, (bal / 1000).max(1001).min(10u128.pow(24))),
        };
        self.n_explicit += 1;
        let id = match self.rng.gen_range(0..6) {
            0 | 1 => Some(format!("farm{}", self.n_explicit)),
            2 => f.farms.keys().next().map(|k| k.trim_start_matches("m-").to_string()), // colliding
            3 => Some("bad id".into()),
            _ => None,
        };
        let asset = coin(amount, denom.clone());
        let mut funds = farm_funds(&asset, &f.cfg.create_farm_fee);
        match self.rng.gen_range(0..14) {
            0 => funds.clear(),
            1 => {
                if let Some(c) = funds.first_mut() {
                    c.amount += Uint128::new(7);
                }
            }
            2 | 6 | 7 => {
                // overpay the fee coin (refund expected when it is not the reward denom)
                if let Some(c) = funds.iter_mut().find(|c| c.denom == f.cfg.create_farm_fee.denom) {
                    c.amount += Uint128::new(123);
                }
            }
            3 => {
                if let Some(c) = funds.iter_mut().find(|c| c.denom == f.cfg.create_farm_fee.denom) {
                    c.amount = c.amount.saturating_sub(Uint128::new(1));
                }
                funds.retain(|c| !c.amount.is_zero());
            }
            5 => {
                // under-fund the reward: only the fee, or a random part
                if let Some(c) = funds.iter_mut().find(|c| c.denom == denom) {
                    let keep = if f.cfg.create_farm_fee.denom == denom && self.rng.gen_bool(0.5) { f.cfg.create_farm_fee.amount.u128() } else { self.rng.gen_range(0..c.amount.u128()) };
                    c.amount = Uint128::new(keep);
                }
                funds.retain(|c| !c.amount.is_zero());
            }
            4 => {
                if !funds.iter().any(|c| c.denom == "ux12") {
                    funds.push(coin(5, "ux12"));
                    funds.sort_by(|a, b| a.denom.cmp(&b.denom));
                }
            }
            _ => {}
        }
        let lp_denom = if self.rng.gen_range(0..20) == 0 { "uom".to_string() } else { lp };
        Some(farm_op(
            &sender,
            FarmAction::Create {
                params: FarmParams {
                    lp_denom,
                    start_epoch: start,
                    preliminary_end_epoch: end,
                    curve: None,
                    farm_asset: asset,
                    farm_identifier: id,
                },
            },
            funds,
        ))
    }

    fn gen_farm_expand(&mut self, w: &World, f: &FObs) -> Option<Op> {
        let farm = f.farms.values().collect::<Vec<_>>().choose(&mut self.rng).cloned()?.clone();
        let sender = if self.rng.gen_range(0..5) == 0 { self.user(w) } else { farm.owner.clone() };
        let rate = farm.emission_rate.u128().max(1);
        let amount = match self.rng.gen_range(0..6) {
            0 => rate * self.rng.gen_range(1..5) + 1, // not a multiple
            1 => rate,
            // very many epochs, up to and beyond what an epoch number can hold
            2 => {
                let epochs = *[1000u128, 1 << 32, (1 << 63) - 1, u64::MAX as u128 - self.rng.gen_range(0..400), u64::MAX as u128 + 1, (1u128 << 64) + self.rng.gen_range(1..50), 1u128 << 70].choose(&mut self.rng).unwrap();
                let bal = w.balance(&sender, &farm.farm_asset.denom);
                match rate.checked_mul(epochs) {
                    Some(a) if a <= bal => a,
                    _ => rate * self.rng.gen_range(6..400),
                }
            }
            _ => rate * self.rng.gen_range(1..6),
        };
        let declared = if self.rng.gen_range(0..10) == 0 { amount + 1 } else { amount };
        Some(farm_op(
            &sender,
            FarmAction::Expand {
                params: FarmParams {
                    // now and then the expansion names another (valid) LP token than the farm's own
                    lp_denom: if self.rng.gen_range(0..6) == 0 { self.lps.choose(&mut self.rng).cloned().unwrap_or_else(|| farm.lp_denom.clone()) } else { farm.lp_denom.clone() },
                    start_epoch: None,
                    preliminary_end_epoch: None,
                    curve: None,
                    farm_asset: coin(declared, farm.farm_asset.denom.clone()),
                    farm_identifier: Some(farm.identifier.clone()),
                },
            },
            vec![coin(amount, farm.farm_asset.denom.clone())],
        ))
    }

    fn gen_farm_close(&mut self, w: &World, f: &FObs) -> Option<Op> {
        let farm = f.farms.values().collect::<Vec<_>>().choose(&mut self.rng).cloned()?.clone();
        let sender = match self.rng.gen_range(0..6) {
            0 => w.owner.clone(),
            1 => self.user(w),
            _ => farm.owner.clone(),
        };
        let funds = if self.rng.gen_range(0..12) == 0 { vec![coin(1, "uom")] } else { vec![] };
        Some(farm_op(&sender, FarmAction::Close { farm_identifier: farm.identifier.clone() }, funds))
    }

    fn duration(&mut self) -> u64 {
        match self.rng.gen_range(0..10) {
            0 => 86_399,
            1 => *[31_556_927u64, 34_000_000, 63_113_852].choose(&mut self.rng).unwrap(),
            2 | 3 => self.rng.gen_range(86_400..=31_556_926),
            _ => *DURATIONS.choose(&mut self.rng).unwrap(),
        }
    }

    fn lp_amount(&mut self, bal: u128) -> u128 {
        match self.rng.gen_range(0..10) {
            0 => 1,
            1 => self.rng.gen_range(1..10),
            2 => self.rng.gen_range(10..10_000),
            _ => log_uniform(&mut self.rng, 1, (bal / 20).max(2).min(self.max_amount)),
        }
    }

    fn gen_pos_create(&mut self, w: &World, f: &FObs, obs: &Obs) -> Option<Op> {
        let sender = self.user(w);
        let lp = self.lps.choose(&mut self.rng)?.clone();
        let bal = obs.bal(&sender, &lp);
        if bal == 0 {
            return None;
        }
        let amount = self.lp_amount(bal).min(bal);
        self.n_explicit += 1;
        let id = match self.rng.gen_range(0..6) {
            0 | 1 => Some(format!("pos{}", self.n_explicit)),
            2 => {
                // an identifier that is already taken (open, or closed and not yet withdrawn)
                let taken: Vec<&String> = f.positions.keys().filter(|k| k.starts_with("u-")).collect();
                taken.choose(&mut self.rng).map(|k| k.trim_start_matches("u-").to_string())
            }
            _ => None,
        };
        let receiver = match self.rng.gen_range(0..10) {
            0 => Some(w.users[self.rng.gen_range(0..w.users.len())].to_string()),
            1 => Some(sender.to_string()),
            _ => None,
        };
        let funds = match self.rng.gen_range(0..20) {
            0 => vec![coin(amount, "uom")],
            1 => vec![],
            _ => vec![coin(amount, lp)],
        };
        Some(pos_op(&sender, PositionAction::Create { identifier: id, unlocking_duration: self.duration(), receiver }, funds))
    }

    fn gen_pos_expand(&mut self, w: &World, f: &FObs, obs: &Obs) -> Option<Op> {
        let p = f.positions.values().collect::<Vec<_>>().choose(&mut self.rng).cloned()?.clone();
        let sender = if self.rng.gen_range(0..6) == 0 { self.user(w) } else { p.receiver.clone() };
        let bal = obs.bal(&sender, &p.lp_asset.denom);
        if bal == 0 {
            return None;
        }
        let amount = self.lp_amount(bal).min(bal);
        let id = self.ident(&p.identifier);
        Some(pos_op(&sender, PositionAction::Expand { identifier: id }, vec![coin(amount, p.lp_asset.denom.clone())]))
    }

    fn gen_pos_close(&mut self, w: &World, f: &FObs) -> Option<Op> {
        let open: Vec<&Position> = f.positions.values().filter(|p| p.open || self.rng.gen_range(0..10) == 0).collect();
        let p = (*open.choose(&mut self.rng)?).clone();
        if p.open && self.rng.gen_range(0..25) == 0 {
            // leave and return: the owner claims, closes every open position in this LP token
            // (some in pieces), stays away for a few epochs, opens a new position and claims
            let u = p.receiver.clone();
            let lp = p.lp_asset.denom.clone();
            self.script.push_back(claim_op(&u, None));
            for q in f.positions.values().filter(|q| q.open && q.receiver == u && q.lp_asset.denom == lp) {
                let t = q.lp_asset.amount.u128();
                if t > 3 && self.rng.gen_bool(0.5) {
                    self.script.push_back(pos_op(&u, PositionAction::Close { identifier: q.identifier.clone(), lp_asset: Some(coin(t / 2, lp.clone())) }, vec![]));
                }
                self.script.push_back(pos_op(&u, PositionAction::Close { identifier: q.identifier.clone(), lp_asset: None }, vec![]));
            }
            let dur = w.cfg.epoch_duration;
            self.script.push_back(Op::Advance { secs: dur * self.rng.gen_range(1..4) });
            if self.rng.gen_bool(0.5) {
                // free some LP again
                self.script.push_back(pos_op(&u, PositionAction::Withdraw { identifier: p.identifier.clone(), emergency_unlock: Some(true) }, vec![]));
            }
            let amount = (p.lp_asset.amount.u128() / 3).max(1);
            self.n_explicit += 1;
            let back_dur = self.duration();
            let back_id = format!("back{}", self.n_explicit);
            self.script.push_back(pos_op(&u, PositionAction::Create { identifier: Some(back_id), unlocking_duration: back_dur, receiver: None }, vec![coin(amount, lp.clone())]));
            self.script.push_back(Op::Advance { secs: dur });
            self.script.push_back(claim_op(&u, None));
            self.script.push_back(Op::Advance { secs: dur });
            self.script.push_back(claim_op(&u, None));
            return self.script.pop_front();
        }
        let sender = if self.rng.gen_range(0..8) == 0 { self.user(w) } else { p.receiver.clone() };
        let total = p.lp_asset.amount.u128();
        let lp_asset = match self.rng.gen_range(0..8) {
            0..=2 => None,
            3 => Some(coin(total, p.lp_asset.denom.clone())),
            4 => Some(coin(total + 1, p.lp_asset.denom.clone())),
            5 => Some(coin(1.min(total), p.lp_asset.denom.clone())),
            6 => Some(coin(total.saturating_sub(1).max(1), p.lp_asset.denom.clone())),
            _ => Some(coin(log_uniform(&mut self.rng, 1, total.max(2)), p.lp_asset.denom.clone())),
        };
        // closing needs no pending rewards: mostly claim first
        if self.rng.gen_range(0..4) != 0 && sender == p.receiver {
            self.script.push_back(pos_op(&sender, PositionAction::Close { identifier: p.identifier.clone(), lp_asset }, vec![]));
            return Some(claim_op(&sender, None));
        }
        let id = self.ident(&p.identifier);
        Some(pos_op(&sender, PositionAction::Close { identifier: id, lp_asset }, vec![]))
    }

    /// the identifier as the contract stores it, or now and then as a caller might type it:
    /// without the contract's "u-" / "p-" prefix
    fn ident(&mut self, stored: &str) -> String {
        if self.rng.gen_range(0..12) == 0 {
            stored.trim_start_matches("u-").trim_start_matches("p-").to_string()
        } else {
            stored.to_string()
        }
    }

    fn gen_withdraw(&mut self, w: &World, f: &FObs, emergency: bool) -> Option<Op> {
        let cands: Vec<&Position> = f.positions.values().filter(|p| emergency || !p.open || self.rng.gen_range(0..10) == 0).collect();
        let p = (*cands.choose(&mut self.rng)?).clone();
        let sender = if self.rng.gen_range(0..8) == 0 { self.user(w) } else { p.receiver.clone() };
        let e = if emergency { Some(true) } else if self.rng.gen_bool(0.5) { None } else { Some(false) };
        let id = self.ident(&p.identifier);
        Some(pos_op(&sender, PositionAction::Withdraw { identifier: id, emergency_unlock: e }, vec![]))
    }

    fn gen_claim(&mut self, w: &World, f: &FObs) -> Option<Op> {
        let holders: Vec<Addr> = {
            let mut v: Vec<Addr> = f.positions.values().filter(|p| p.open).map(|p| p.receiver.clone()).collect();
            v.sort();
            v.dedup();
            v
        };
        let sender = if self.rng.gen_range(0..10) == 0 || holders.is_empty() { self.user(w) } else { holders.choose(&mut self.rng)?.clone() };
        let cur = f.epoch?;
        let last = f.last_claimed.get(sender.as_str()).copied();
        let until = match self.rng.gen_range(0..10) {
            0..=4 => None,
            5 => Some(cur),
            6 => last,
            7 => Some(cur + 1),
            8 => last.map(|l| l.saturating_sub(1)),
            _ => {
                let lo = last.unwrap_or(0);
                if cur > lo {
                    Some(self.rng.gen_range(lo..=cur))
                } else {
                    Some(cur)
                }
            }
        };
        Some(claim_op(&sender, until))
    }

    fn gen_config(&mut self, w: &World, f: &FObs) -> Option<Op> {
        let sender = if self.rng.gen_range(0..4) == 0 { self.user(w) } else { w.owner.clone() };
        let k = self.rng.gen_range(0..8);
        Some(fm_config_op(&sender, |p| match k {
            // the fee collector may be the contract or a plain account, and changes hands
            7 => p.fee_collector_addr = Some(if self.rng.gen_bool(0.5) { w.fc.to_string() } else { w.fc2.to_string() }),
            0 => p.emergency_unlock_penalty = Some(*[Decimal::zero(), Decimal::percent(2), Decimal::percent(10), Decimal::percent(50), Decimal::percent(100), Decimal::percent(101)].choose(&mut self.rng).unwrap()),
            1 => p.create_farm_fee = Some(*[&coin(0, "uom"), &coin(1000, "uom"), &coin(500, "uusdt"), &coin(0, "uusdt")].choose(&mut self.rng).unwrap()).cloned(),
            2 => p.max_concurrent_farms = Some(f.cfg.max_concurrent_farms + self.rng.gen_range(0..2) - if self.rng.gen_range(0..6) == 0 { 1 } else { 0 }),
            3 => p.max_farm_epoch_buffer = Some(self.rng.gen_range(1..20)),
            4 => p.farm_expiration_time = Some(*[2_629_746u64, 2_629_745, 3_000_000, 10_000_000, 31_556_926].choose(&mut self.rng).unwrap()),
            5 => p.min_unlocking_duration = Some(*[86_400u64, 100_000, 40_000_000].choose(&mut self.rng).unwrap()),
            // nothing bounds the maximum from above (it only has to be >= the minimum)
            _ => p.max_unlocking_duration = Some(*[31_556_926u64, 20_000_000, 1, 40_000_000, 63_113_852, u64::MAX].choose(&mut self.rng).unwrap()),
        }))
    }

    fn gen_locked_deposit(&mut self, w: &World, f: &FObs, obs: &Obs) -> Option<Op> {
        let sender = self.user(w);
        let pid = self.pool_ids.choose(&mut self.rng)?.clone();
        let p = obs.pools.get(&pid)?;
        let ppm = log_uniform(&mut self.rng, 1, 20_000);
        let mut funds: Vec<Coin> = p.info.assets.iter().map(|c| coin((c.amount.u128() / 1_000_000 * ppm).max(1), c.denom.clone())).collect();
        // a third of the locked deposits are single-asset ones (the pool manager then swaps half
        // internally and locks the LP in a second, self-sent step)
        if p.info.assets.len() == 2 && self.rng.gen_range(0..3) == 0 {
            let k = self.rng.gen_range(0..2);
            funds.remove(k);
        }
        // the sender's own positions: of this pool's LP token, or now and then of any LP token
        let any_lp = self.rng.gen_range(0..4) == 0;
        let mine: Vec<&Position> = f.positions.values().filter(|q| q.receiver == sender && (any_lp || q.lp_asset.denom == p.info.lp_denom)).collect();
        let others: Vec<&Position> = f.positions.values().filter(|q| q.receiver != sender).collect();
        self.n_explicit += 1;
        let lock_id = match self.rng.gen_range(0..6) {
            0 | 1 => None,
            2 | 3 => mine.choose(&mut self.rng).map(|q| q.identifier.clone()),
            // somebody else's position, as stored or as a caller would type it (without the prefix
            // the farm manager adds to explicit identifiers)
            4 => others.choose(&mut self.rng).map(|q| q.identifier.clone()).map(|id| if self.rng.gen_bool(0.5) { id.trim_start_matches("u-").to_string() } else { id }),
            _ => Some(format!("lock{}", self.n_explicit)),
        };
        let mut recv = if self.rng.gen_range(0..8) == 0 { Some(w.users[0].to_string()) } else { None };
        // aiming at somebody else's position and naming its owner as the receiver
        if let Some(id) = &lock_id {
            if let Some(q) = others.iter().find(|q| &q.identifier == id || q.identifier.trim_start_matches("u-") == id) {
                if self.rng.gen_bool(0.5) {
                    recv = Some(q.receiver.to_string());
                }
            }
        }
        Some(provide_op(&sender, &pid, funds, None, None, recv, Some(self.duration()), lock_id))
    }

    fn gen_garbage(&mut self, w: &World) -> Option<Op> {
        let sender = self.user(w);
        Some(match self.rng.gen_range(0..5) {
            0 => pos_op(&sender, PositionAction::Withdraw { identifier: "p-99999".into(), emergency_unlock: None }, vec![]),
            1 => pos_op(&sender, PositionAction::Close { identifier: "u-nope".into(), lp_asset: None }, vec![]),
            2 => farm_op(&sender, FarmAction::Close { farm_identifier: "f-404".into() }, vec![]),
            3 => Op::Fm { sender, msg: fm::ExecuteMsg::Claim { until_epoch: None }, funds: vec![coin(1, "uom")] },
            _ => pos_op(&sender, PositionAction::Expand { identifier: "p-0".into() }, vec![coin(1, self.lps[0].clone())]),
        })
    }

    pub fn next(&mut self, w: &World, obs: &Obs, f: &FObs) -> Op {
        if let Some(op) = self.script.pop_front() {
            return op;
        }
        let total: u32 = self.weights.iter().sum();
        for _ in 0..50 {
            let mut r = self.rng.gen_range(0..total);
            let mut k = 0;
            for (i, wt) in self.weights.iter().enumerate() {
                if r < *wt {
                    k = i;
                    break;
                }
                r -= wt;
            }
            let op = match k {
                0 => Some(self.gen_advance(w, f)),
                1 => self.gen_farm_create(w, f, obs),
                2 => self.gen_farm_expand(w, f),
                3 => self.gen_farm_close(w, f),
                4 => self.gen_pos_create(w, f, obs),
                5 => self.gen_pos_expand(w, f, obs),
                6 => self.gen_pos_close(w, f),
                7 => self.gen_withdraw(w, f, false),
                8 => self.gen_withdraw(w, f, true),
                9 => self.gen_claim(w, f),
                10 => {
                    if self.allow_config {
                        self.gen_config(w, f)
                    } else {
                        None
                    }
                }
                11 => {
                    let from = self.user(w);
                    let d = self.reward_denoms().choose(&mut self.rng).cloned().unwrap();
                    let b = obs.bal(&from, &d);
                    if b > 1000 {
                        Some(Op::Send { from, to: w.fm.clone(), coins: vec![coin(log_uniform(&mut self.rng, 1, b / 1_000_000 + 2), d)] })
                    } else {
                        None
                    }
                }
                12 => self.gen_locked_deposit(w, f, obs),
                _ => self.gen_garbage(w),
            };
            if let Some(op) = op {
                return op;
            }
        }
        Op::Advance { secs: 1 }
    }
}
