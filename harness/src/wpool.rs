//! W-pool: hostile, seeded workload against the pool manager (with the farm manager live for
//! locked deposits).

use std::collections::VecDeque;
use std::str::FromStr;

use cosmwasm_std::{coin, Addr, Coin, Decimal, Uint128};
use mantra_dex_std::fee::{Fee, PoolFee};
use mantra_dex_std::pool_manager as pm;
use mantra_dex_std::pool_manager::{PoolType, SwapOperation};
use rand::rngs::StdRng;
use rand::seq::SliceRandom;
use rand::{Rng, SeedableRng};

use crate::ops::{Obs, Op, PoolView};
use crate::world::World;

pub fn bps(x: u64) -> Decimal {
    Decimal::from_ratio(x, 10_000u64)
}

pub fn pool_fee(protocol: u64, swap: u64, burn: u64, extra: &[u64]) -> PoolFee {
    PoolFee {
        protocol_fee: Fee { share: bps(protocol) },
        swap_fee: Fee { share: bps(swap) },
        burn_fee: Fee { share: bps(burn) },
        extra_fees: extra.iter().map(|e| Fee { share: bps(*e) }).collect(),
    }
}

pub fn log_uniform(rng: &mut StdRng, lo: u128, hi: u128) -> u128 {
    if hi <= lo {
        return lo;
    }
    let l = (lo.max(1) as f64).ln();
    let h = (hi as f64).ln();
    let x = rng.gen_range(l..=h).exp();
    let v = x as u128;
    v.clamp(lo, hi)
}

pub fn create_pool_op(
    w: &World,
    sender: &Addr,
    denoms: &[&str],
    pool_type: PoolType,
    fees: PoolFee,
    id: Option<&str>,
) -> Op {
    let decs: Vec<u8> = denoms
        .iter()
        .map(|d| w.cfg.denoms.iter().find(|(n, _)| n == d).map(|(_, x)| *x).unwrap_or(6))
        .collect();
    Op::Pm {
        sender: sender.clone(),
        msg: pm::ExecuteMsg::CreatePool {
            asset_denoms: denoms.iter().map(|s| s.to_string()).collect(),
            asset_decimals: decs,
            pool_fees: fees,
            pool_type,
            pool_identifier: id.map(|s| s.to_string()),
        },
        funds: creation_funds(w),
    }
}

/// exactly the funds a pool creation needs under the current configuration
pub fn creation_funds(w: &World) -> Vec<Coin> {
    let cfg: Result<pm::Config, String> = w.query(&w.pm, &pm::QueryMsg::Config {});
    let fee = cfg.map(|c| c.pool_creation_fee).unwrap_or(w.cfg.pool_creation_fee.clone());
    let mut v: Vec<Coin> = vec![];
    if !fee.amount.is_zero() {
        v.push(fee);
    }
    for c in w.tf_fees.borrow().iter() {
        if let Some(e) = v.iter_mut().find(|x| x.denom == c.denom) {
            e.amount += c.amount;
        } else {
            v.push(c.clone());
        }
    }
    v.sort_by(|a, b| a.denom.cmp(&b.denom));
    v
}

pub fn provide_op(
    sender: &Addr,
    pool: &str,
    funds: Vec<Coin>,
    liq_slip: Option<Decimal>,
    swap_slip: Option<Decimal>,
    receiver: Option<String>,
    unlocking: Option<u64>,
    lock_id: Option<String>,
) -> Op {
    let mut funds = funds;
    funds.sort_by(|a, b| a.denom.cmp(&b.denom));
    Op::Pm {
        sender: sender.clone(),
        msg: pm::ExecuteMsg::ProvideLiquidity {
            liquidity_max_slippage: liq_slip,
            swap_max_slippage: swap_slip,
            receiver,
            pool_identifier: pool.to_string(),
            unlocking_duration: unlocking,
            lock_position_identifier: lock_id,
        },
        funds,
    }
}

pub fn swap_op(
    sender: &Addr,
    pool: &str,
    offer: Coin,
    ask: &str,
    belief: Option<Decimal>,
    max_slip: Option<Decimal>,
    receiver: Option<String>,
) -> Op {
    Op::Pm {
        sender: sender.clone(),
        msg: pm::ExecuteMsg::Swap {
            ask_asset_denom: ask.to_string(),
            belief_price: belief,
            max_slippage: max_slip,
            receiver,
            pool_identifier: pool.to_string(),
        },
        funds: vec![offer],
    }
}

pub fn withdraw_op(sender: &Addr, pool: &str, lp: Coin) -> Op {
    Op::Pm {
        sender: sender.clone(),
        msg: pm::ExecuteMsg::WithdrawLiquidity {
            pool_identifier: pool.to_string(),
        },
        funds: vec![lp],
    }
}

pub fn toggle_op(sender: &Addr, pool: &str, s: Option<bool>, d: Option<bool>, wd: Option<bool>) -> Op {
    Op::Pm {
        sender: sender.clone(),
        msg: pm::ExecuteMsg::UpdateConfig {
            fee_collector_addr: None,
            farm_manager_addr: None,
            pool_creation_fee: None,
            feature_toggle: Some(pm::FeatureToggle {
                pool_identifier: pool.to_string(),
                withdrawals_enabled: wd,
                deposits_enabled: d,
                swaps_enabled: s,
            }),
        },
        funds: vec![],
    }
}

pub struct PoolGen {
    pub rng: StdRng,
    pub script: VecDeque<Op>,
    pub explicit_n: u32,
    pub lock_ids: Vec<(Addr, String)>,
    /// pool toggled off and how many more ops until it is re-enabled
    pub toggled: Option<(String, u32)>,
    pub allow_toggles: bool,
    pub allow_config: bool,
    pub allow_create: bool,
    pub max_pools: usize,
    /// which single kind of fee (if any) the scripted 6/18-decimals stable pool charges
    pub fee_variant: usize,
    /// relative weights: swap, route, provide, single, withdraw, create, donate, admin, garbage
    pub weights: [u32; 9],
}

pub const DURATIONS: [u64; 6] = [86_400, 100_000, 2_629_746, 15_778_463, 20_000_000, 31_556_926];

impl PoolGen {
    pub fn new(seed: u64) -> PoolGen {
        PoolGen {
            rng: StdRng::seed_from_u64(seed),
            script: VecDeque::new(),
            explicit_n: 0,
            lock_ids: vec![],
            toggled: None,
            allow_toggles: true,
            allow_config: true,
            allow_create: true,
            max_pools: 11,
            fee_variant: 0,
            weights: [30, 12, 14, 8, 10, 4, 4, 3, 5],
        }
    }

    /// deterministic prefix: eight pools sharing denoms, funded, so that every run covers both
    /// pool types, 2/3/4 assets and mixed decimals regardless of the seed.
    pub fn scripted_prefix(&mut self, w: &World) {
        let u0 = w.users[0].clone();
        let u1 = w.users[1].clone();
        let mut s: Vec<Op> = vec![];
        s.push(create_pool_op(w, &u0, &["uom", "uusdc"], PoolType::ConstantProduct, pool_fee(10, 30, 5, &[10]), Some("omusdc")));
        s.push(create_pool_op(w, &u0, &["uusdc", "ueth"], PoolType::ConstantProduct, pool_fee(0, 0, 0, &[]), None));
        s.push(create_pool_op(w, &u1, &["uusdc", "uusdt"], PoolType::StableSwap { amp: 100 }, pool_fee(5, 4, 1, &[]), Some("stable2")));
        s.push(create_pool_op(w, &u1, &["uusdc", "uusdt", "udai"], PoolType::StableSwap { amp: 85 }, pool_fee(2, 10, 0, &[3, 2]), None));
        s.push(create_pool_op(w, &u0, &["uusdc", "uusdt", "uwbtc", "udai"], PoolType::StableSwap { amp: 10 }, pool_fee(0, 20, 10, &[]), Some("four")));
        // the 6/18-decimals stable pool charges no fee at all or exactly one kind of fee
        let zf = match self.fee_variant % 4 {
            0 => pool_fee(0, 0, 0, &[]),
            1 => pool_fee(0, 0, 7, &[]),
            2 => pool_fee(9, 0, 0, &[]),
            _ => pool_fee(0, 0, 0, &[0, 4]),
        };
        // ... and in every fourth shard its amplification lies above 1e6 (pool creation accepts any amp > 0)
        let zamp = if self.fee_variant % 4 == 3 { 5_000_000 } else { 2000 };
        s.push(create_pool_op(w, &u1, &["uusdc", "udai"], PoolType::StableSwap { amp: zamp }, zf, Some("z618")));
        // a nearly worthless 18-decimals token against a precious 6-decimals one: the base-unit
        // price lies below 1e-18
        s.push(create_pool_op(w, &u0, &["ueth", "uusdt"], PoolType::ConstantProduct, pool_fee(0, 30, 0, &[]), Some("lop")));
        // a very large pool of two 18-decimals tokens (a trillion whole tokens a side)
        s.push(create_pool_op(w, &u1, &["udai", "ueth"], PoolType::ConstantProduct, PoolFee { protocol_fee: Fee { share: Decimal::from_ratio(1u128, 300u128) }, swap_fee: Fee { share: Decimal::from_atomics(1_234_567_890_123_456u128, 18).unwrap() }, burn_fee: Fee { share: Decimal::zero() }, extra_fees: vec![Fee { share: Decimal::from_atomics(700_000_000_000_001u128, 18).unwrap() }] }, Some("big")));
        let t6 = 10u128.pow(6);
        let t8 = 10u128.pow(8);
        let t18 = 10u128.pow(18);
        s.push(provide_op(&u0, "o.omusdc", vec![coin(5_000_000 * t6, "uom"), coin(1_000_000 * t6, "uusdc")], None, None, None, None, None));
        s.push(provide_op(&u0, "p.1", vec![coin(3_000_000 * t6, "uusdc"), coin(1_000 * t18, "ueth")], None, None, None, None, None));
        s.push(provide_op(&u1, "o.stable2", vec![coin(2_000_000 * t6, "uusdc"), coin(2_000_000 * t6, "uusdt")], None, None, None, None, None));
        s.push(provide_op(&u1, "p.2", vec![coin(1_000_000 * t6, "uusdc"), coin(1_100_000 * t6, "uusdt"), coin(900_000 * t18, "udai")], None, None, None, None, None));
        s.push(provide_op(&u0, "o.four", vec![coin(500_000 * t6, "uusdc"), coin(500_000 * t6, "uusdt"), coin(400_000 * t8, "uwbtc"), coin(600_000 * t18, "udai")], None, None, None, None, None));
        s.push(provide_op(&u1, "o.z618", vec![coin(800_000 * t6, "uusdc"), coin(800_000 * t18, "udai")], None, None, None, None, None));
        s.push(provide_op(&u0, "o.lop", vec![coin(10u128.pow(30), "ueth"), coin(20_000 * t6, "uusdt")], None, None, None, None, None));
        s.push(provide_op(&u1, "o.big", vec![coin(10u128.pow(30), "udai"), coin(2 * 10u128.pow(30), "ueth")], None, None, None, None, None));
        self.script = s.into();
    }

    fn user(&mut self, w: &World) -> Addr {
        let k = self.rng.gen_range(0..w.users.len() + 1);
        if k == w.users.len() {
            if self.rng.gen_bool(0.5) {
                w.hostile.clone()
            } else {
                w.owner.clone()
            }
        } else {
            w.users[k].clone()
        }
    }

    fn receiver(&mut self, w: &World, sender: &Addr) -> Option<String> {
        match self.rng.gen_range(0..10) {
            0..=5 => None,
            6 => Some(sender.to_string()),
            7 => Some(w.users[self.rng.gen_range(0..w.users.len())].to_string()),
            8 => Some(w.hostile.to_string()),
            _ => {
                if self.rng.gen_bool(0.5) {
                    Some(w.fc.to_string())
                } else {
                    Some("not-an-address".to_string())
                }
            }
        }
    }

    fn slip(&mut self) -> Option<Decimal> {
        match self.rng.gen_range(0..12) {
            0..=3 => None,
            4..=6 => Some(Decimal::percent(50)),
            7 => Some(Decimal::zero()),
            8 => Some(Decimal::percent(self.rng.gen_range(1..50))),
            9 => Some(Decimal::from_ratio(self.rng.gen_range(1u64..10_000), 100_000u64)),
            10 => Some(Decimal::percent(self.rng.gen_range(51..=100))),
            _ => Some(Decimal::percent(self.rng.gen_range(101..300))),
        }
    }

    fn pick_pool<'a>(&mut self, obs: &'a Obs, funded: bool) -> Option<&'a PoolView> {
        let v: Vec<&PoolView> = obs
            .pools
            .values()
            .filter(|p| !funded || p.funded())
            .collect();
        v.choose(&mut self.rng).copied()
    }

    fn offer_amount(&mut self, reserve: u128) -> u128 {
        match self.rng.gen_range(0..20) {
            0 => 1,
            1 => self.rng.gen_range(1..10),
            2 => reserve.saturating_mul(self.rng.gen_range(1..4)),
            3..=5 => log_uniform(&mut self.rng, (reserve / 100).max(1), reserve.max(2)),
            _ => log_uniform(&mut self.rng, (reserve / 1_000_000_000).max(1), (reserve / 20).max(2)),
        }
    }

    pub fn gen_swap(&mut self, w: &World, obs: &Obs) -> Option<Op> {
        let sender = self.user(w);
        let p = self.pick_pool(obs, true)?;
        let n = p.info.assets.len();
        let i = self.rng.gen_range(0..n);
        let mut j = self.rng.gen_range(0..n);
        if j == i {
            j = (i + 1) % n;
        }
        let offer_denom = p.info.assets[i].denom.clone();
        let ask = p.info.assets[j].denom.clone();
        let amt = self.offer_amount(p.info.assets[i].amount.u128());
        let belief = if self.rng.gen_range(0..6) == 0 {
            // around the pool price offer/ask
            let ro = p.info.assets[i].amount.u128();
            let ra = p.info.assets[j].amount.u128();
            if ra > 0 && ro > 0 && (ro / ra) < 10u128.pow(15) && (ra / ro) < 10u128.pow(15) {
                let f = self.rng.gen_range(80u128..125);
                let num = ro.checked_mul(f);
                let den = ra.checked_mul(100);
                match (num, den) {
                    (Some(nu), Some(de)) if de > 0 => Decimal::checked_from_ratio(nu, de).ok(),
                    _ => None,
                }
            } else if self.rng.gen_bool(0.3) {
                Some(Decimal::zero())
            } else {
                None
            }
        } else {
            None
        };
        let pid = p.info.pool_identifier.clone();
        let slip = self.slip();
        let recv = self.receiver(w, &sender);
        let mut op = swap_op(&sender, &pid, coin(amt, offer_denom.clone()), &ask, belief, slip, recv);
        if self.rng.gen_range(0..25) == 0 {
            // another coin riding along with the offer (the ask token, or any other)
            if let Op::Pm { funds, .. } = &mut op {
                let extra = if self.rng.gen_bool(0.5) { ask.clone() } else { w.cfg.denoms.choose(&mut self.rng).map(|(d, _)| d.clone()).unwrap_or_else(|| "uom".into()) };
                if extra != offer_denom {
                    funds.push(coin(self.rng.gen_range(1..1_000_000u128), extra));
                    funds.sort_by(|a, b| a.denom.cmp(&b.denom));
                }
            }
        }
        Some(op)
    }

    pub fn gen_route(&mut self, w: &World, obs: &Obs, simple: bool) -> Option<Op> {
        let sender = self.user(w);
        let funded: Vec<&PoolView> = obs.pools.values().filter(|p| p.funded()).collect();
        if funded.is_empty() {
            return None;
        }
        let len = self.rng.gen_range(1..=5usize);
        let first = *funded.choose(&mut self.rng)?;
        let mut cur = first.info.assets.choose(&mut self.rng)?.denom.clone();
        let start = cur.clone();
        let start_reserve = first.reserve(&start);
        let mut used: Vec<String> = vec![];
        let mut ops: Vec<SwapOperation> = vec![];
        for h in 0..len {
            let cands: Vec<&&PoolView> = funded
                .iter()
                .filter(|p| p.index_of(&cur).is_some())
                .filter(|p| !simple || !used.contains(&p.info.pool_identifier))
                .filter(|p| h > 0 || p.info.pool_identifier == first.info.pool_identifier)
                .collect();
            let p = match cands.choose(&mut self.rng) {
                Some(p) => **p,
                None => break,
            };
            let outs: Vec<&Coin> = p.info.assets.iter().filter(|c| c.denom != cur).collect();
            // now and then a degenerate hop that asks for the token it offers
            let out = if self.rng.gen_range(0..25) == 0 { cur.clone() } else { outs.choose(&mut self.rng)?.denom.clone() };
            ops.push(SwapOperation::MantraSwap {
                token_in_denom: cur.clone(),
                token_out_denom: out.clone(),
                pool_identifier: p.info.pool_identifier.clone(),
            });
            used.push(p.info.pool_identifier.clone());
            cur = out;
        }
        if ops.is_empty() {
            return None;
        }
        let amt = match self.rng.gen_range(0..10) {
            0 => 1,
            1 => self.rng.gen_range(2..1000),
            _ => log_uniform(&mut self.rng, (start_reserve / 100_000_000).max(1), (start_reserve / 30).max(2)),
        };
        let min_receive = match self.rng.gen_range(0..6) {
            0 => Some(Uint128::new(1)),
            1 => Some(Uint128::new(u128::MAX / 4)),
            2 => Some(Uint128::zero()),
            _ => None,
        };
        let recv = self.receiver(w, &sender);
        let slip = match self.rng.gen_range(0..4) {
            0 => None,
            1 => self.slip(),
            _ => Some(Decimal::percent(50)),
        };
        // a route whose k-th hop does not start where the previous one ended
        let mut ops = ops;
        if ops.len() >= 2 && self.rng.gen_range(0..12) == 0 {
            let k = self.rng.gen_range(1..ops.len());
            let SwapOperation::MantraSwap { token_in_denom, token_out_denom, pool_identifier } = ops[k].clone();
            if let Some(p) = obs.pools.get(&pool_identifier) {
                match p.info.asset_denoms.iter().find(|d| **d != token_in_denom && **d != token_out_denom) {
                    Some(other) => ops[k] = SwapOperation::MantraSwap { token_in_denom: other.clone(), token_out_denom, pool_identifier },
                    // a two-asset pool: the hop runs the other way round
                    None => ops[k] = SwapOperation::MantraSwap { token_in_denom: token_out_denom, token_out_denom: token_in_denom, pool_identifier },
                }
            }
        }
        // paid in another token than the route starts with
        let paid_in = if self.rng.gen_range(0..25) == 0 { w.cfg.denoms.iter().map(|(d, _)| d.clone()).find(|d| *d != start).unwrap_or(start.clone()) } else { start };
        Some(Op::Pm {
            sender,
            msg: pm::ExecuteMsg::ExecuteSwapOperations {
                operations: ops,
                minimum_receive: min_receive,
                receiver: recv,
                max_slippage: slip,
            },
            funds: vec![coin(amt, paid_in)],
        })
    }

    fn lock_opts(&mut self, w: &World, sender: &Addr) -> (Option<u64>, Option<String>) {
        if self.rng.gen_range(0..4) != 0 {
            return (None, None);
        }
        let dur = match self.rng.gen_range(0..8) {
            0 => 1_000,                   // below the minimum
            1 => 40_000_000,              // above the maximum
            2 => self.rng.gen_range(86_400..31_556_926),
            _ => *DURATIONS.choose(&mut self.rng).unwrap(),
        };
        let id = match self.rng.gen_range(0..6) {
            0 | 1 => None,
            2 | 3 => {
                // reuse one of the sender's ids, if any
                let mine: Vec<&(Addr, String)> = self.lock_ids.iter().filter(|(a, _)| a == sender).collect();
                mine.choose(&mut self.rng).map(|(_, i)| i.clone())
            }
            4 => {
                // somebody else's id
                let other: Vec<&(Addr, String)> = self.lock_ids.iter().filter(|(a, _)| a != sender).collect();
                other.choose(&mut self.rng).map(|(_, i)| i.clone())
            }
            _ => {
                self.explicit_n += 1;
                let id = format!("lk{}", self.explicit_n);
                self.lock_ids.push((sender.clone(), format!("u-{id}")));
                Some(id)
            }
        };
        let _ = w;
        (Some(dur), id)
    }

    pub fn gen_provide(&mut self, w: &World, obs: &Obs) -> Option<Op> {
        let sender = self.user(w);
        let p = self.pick_pool(obs, false)?;
        let pid = p.info.pool_identifier.clone();
        let n = p.info.assets.len();
        let decs = p.info.asset_decimals.clone();
        let mut funds: Vec<Coin> = vec![];
        if !p.funded() {
            // first deposit
            let tokens = log_uniform(&mut self.rng, 1, 10_000_000);
            // now and then a constant-product pool between a nearly worthless and a precious
            // token: whole-token ratios up to 1e16 : 1 (base-unit price below 1e-18)
            let extreme = p.is_cp() && self.rng.gen_range(0..10) == 0;
            let lopsided = self.rng.gen_range(10u32..17);
            for (i, a) in p.info.assets.iter().enumerate() {
                let skew = self.rng.gen_range(50u128..200);
                let mut amt = tokens * 10u128.pow(decs.get(i).copied().unwrap_or(6).min(24) as u32) / 100 * skew;
                if extreme && i == 0 {
                    amt = amt.saturating_mul(10u128.pow(lopsided)).min(10u128.pow(33));
                }
                if self.rng.gen_range(0..25) == 0 {
                    continue; // incomplete first deposit
                }
                funds.push(coin(amt.max(1), a.denom.clone()));
            }
        } else {
            let frac_ppm = log_uniform(&mut self.rng, 1, 2_000_000); // up to 2x the pool
            let shape = self.rng.gen_range(0..10);
            for (i, a) in p.info.assets.iter().enumerate() {
                let r = a.amount.u128();
                let base = mul_ppm(r, frac_ppm);
                let amt = match shape {
                    0..=4 => base,                                             // proportional
                    5 | 6 => mul_ppm(base, self.rng.gen_range(300_000..3_000_000)), // skewed
                    7 => {
                        if n > 2 && self.rng.gen_bool(0.5) && i > 0 {
                            0
                        } else {
                            base
                        }
                    } // partial asset set
                    8 => self.rng.gen_range(1..1000),                          // dust
                    _ => mul_ppm(base, self.rng.gen_range(990_000..1_010_000)),
                };
                if amt > 0 {
                    funds.push(coin(amt, a.denom.clone()));
                }
            }
            if funds.len() == 1 && n == 2 {
                // that would be a single-asset deposit; let gen_single handle those
                funds.push(coin(1, p.info.assets.iter().find(|a| a.denom != funds[0].denom)?.denom.clone()));
            }
        }
        if funds.is_empty() {
            return None;
        }
        if self.rng.gen_range(0..30) == 0 {
            funds.push(coin(5, "uom")); // possibly foreign coin
        }
        let liq = match self.rng.gen_range(0..6) {
            0 => self.slip(),
            1 => Some(Decimal::percent(self.rng.gen_range(1..100))),
            2 => Some(Decimal::one()),
            _ => None,
        };
        let (unlock, lock_id) = self.lock_opts(w, &sender);
        let recv = if unlock.is_some() && self.rng.gen_range(0..5) != 0 {
            None
        } else {
            self.receiver(w, &sender)
        };
        Some(provide_op(&sender, &pid, funds, liq, None, recv, unlock, lock_id))
    }

    pub fn gen_single(&mut self, w: &World, obs: &Obs) -> Option<Op> {
        let sender = self.user(w);
        // mostly two-asset funded pools, sometimes an ineligible one
        let cands: Vec<&PoolView> = obs
            .pools
            .values()
            .filter(|p| (p.info.assets.len() == 2 && p.funded()) || self.rng.gen_range(0..12) == 0)
            .collect();
        let p = *cands.choose(&mut self.rng)?;
        let a = p.info.assets.choose(&mut self.rng)?;
        let r = a.amount.u128().max(1000);
        let mut amt = match self.rng.gen_range(0..10) {
            0 => self.rng.gen_range(1..10),
            1 => r,
            _ => log_uniform(&mut self.rng, (r / 10_000_000).max(2), (r / 10).max(3)),
        };
        if self.rng.gen_bool(0.5) {
            amt |= 1; // odd
        }
        let swap_slip = match self.rng.gen_range(0..3) {
            0 => None,
            1 => Some(Decimal::percent(50)),
            _ => self.slip(),
        };
        let liq = if self.rng.gen_range(0..6) == 0 { self.slip() } else { None };
        let (unlock, lock_id) = self.lock_opts(w, &sender);
        let recv = if unlock.is_some() && self.rng.gen_range(0..4) != 0 {
            None
        } else {
            self.receiver(w, &sender)
        };
        Some(provide_op(
            &sender,
            &p.info.pool_identifier,
            vec![coin(amt, a.denom.clone())],
            liq,
            swap_slip,
            recv,
            unlock,
            lock_id,
        ))
    }

    pub fn gen_withdraw(&mut self, w: &World, obs: &Obs) -> Option<Op> {
        // a holder of some LP
        let mut holders: Vec<(Addr, String, String, u128)> = vec![];
        for p in obs.pools.values() {
            for a in w.users.iter().chain([&w.owner, &w.hostile]) {
                let b = obs.bal(a, &p.info.lp_denom);
                if b > 0 {
                    holders.push((a.clone(), p.info.pool_identifier.clone(), p.info.lp_denom.clone(), b));
                }
            }
        }
        let (mut who, mut pid, mut lp, mut bal) = holders.choose(&mut self.rng)?.clone();
        if self.rng.gen_range(0..35) == 0 {
            // prefer a pool all of whose LP (but the contract's own locked minimum) is in the
            // hands of accounts that can withdraw: its supply then falls to exactly the minimum
            let drainable: Vec<&(Addr, String, String, u128)> = holders
                .iter()
                .filter(|h| {
                    let p = &obs.pools[&h.1];
                    let sum: u128 = holders.iter().filter(|x| x.1 == h.1).map(|x| x.3).sum();
                    p.supply.saturating_sub(obs.bal(&w.pm, &p.info.lp_denom)) == sum
                })
                .collect();
            if let Some(h) = drainable.choose(&mut self.rng) {
                (who, pid, lp, bal) = (*h).clone();
            }
            let _ = (&lp, bal);
            // exodus: every holder of this pool's LP leaves (only the locked minimum, and what
            // is locked in the farm manager, stays, backed by dust that carries every fee the
            // pool ever earned), dust-sized trades follow, then somebody seeds the pool again
            let p = obs.pools.get(&pid)?;
            for (a, q, l, b) in holders.iter().filter(|h| h.1 == pid) {
                self.script.push_back(withdraw_op(a, q, coin(*b, l.clone())));
            }
            for k in 0..3usize {
                let n = p.info.asset_denoms.len();
                let (i, j) = (k % n, (k + 1) % n);
                let amt = self.rng.gen_range(1..5_000u128);
                self.script.push_back(swap_op(&who, &pid, coin(amt, p.info.asset_denoms[i].clone()), &p.info.asset_denoms[j], None, Some(Decimal::percent(50)), None));
            }
            let funds: Vec<Coin> = p
                .info
                .asset_denoms
                .iter()
                .zip(p.info.asset_decimals.iter())
                .map(|(d, dec)| coin(10u128.pow(*dec as u32) * self.rng.gen_range(100..100_000u128) + self.rng.gen_range(0..1000u128), d.clone()))
                .collect();
            let seeder = self.user(w);
            self.script.push_back(provide_op(&seeder, &pid, funds, None, None, None, None, None));
            return self.script.pop_front();
        }
        let amt = match self.rng.gen_range(0..12) {
            0 => 1,
            1 => self.rng.gen_range(1..100).min(bal),
            2 | 3 => bal,
            4 => bal + 1, // more than owned
            _ => log_uniform(&mut self.rng, (bal / 1_000_000).max(1), bal),
        };
        if self.rng.gen_range(0..40) == 0 {
            // LP of another pool sent to this pool
            let other = obs.pools.values().find(|p| p.info.pool_identifier != pid)?;
            return Some(withdraw_op(&who, &other.info.pool_identifier, coin(amt.min(bal), lp)));
        }
        let mut op = withdraw_op(&who, &pid, coin(amt, lp));
        if self.rng.gen_range(0..15) == 0 {
            // other coins riding along with the LP
            if let Op::Pm { funds, .. } = &mut op {
                let extra = w.cfg.denoms.choose(&mut self.rng).map(|(d, _)| d.clone()).unwrap_or_else(|| "uom".into());
                funds.push(coin(self.rng.gen_range(1..1_000_000u128), extra));
                funds.sort_by(|a, b| a.denom.cmp(&b.denom));
            }
        }
        Some(op)
    }

    pub fn gen_create(&mut self, w: &World, obs: &Obs) -> Option<Op> {
        let sender = self.user(w);
        let valid = obs.pools.len() < self.max_pools && self.rng.gen_range(0..3) != 0;
        let all: Vec<&str> = w.cfg.denoms.iter().map(|(d, _)| d.as_str()).collect();
        let mut denoms: Vec<&str> = all.clone();
        denoms.shuffle(&mut self.rng);
        let stable = self.rng.gen_bool(0.6);
        let n = if stable { self.rng.gen_range(2..=4) } else { 2 };
        denoms.truncate(n);
        let ty = if stable {
            PoolType::StableSwap {
                amp: *[1u64, 10, 85, 100, 2000, 1_000_000, 5_000_000, 1_000_000_000_000, u64::MAX].choose(&mut self.rng).unwrap(),
            }
        } else {
            PoolType::ConstantProduct
        };
        let fees = match self.rng.gen_range(0..7) {
            0 => pool_fee(0, 0, 0, &[]),
            // shares with digits far beyond basis points (1/300, 0.001234567890123456, ...)
            6 => {
                let fine = |rng: &mut StdRng| Fee { share: Decimal::from_atomics(rng.gen_range(1u128..30_000_000_000_000_000), 18).unwrap() };
                PoolFee { protocol_fee: Fee { share: Decimal::from_ratio(1u128, 300u128) }, swap_fee: fine(&mut self.rng), burn_fee: fine(&mut self.rng), extra_fees: vec![fine(&mut self.rng)] }
            }
            1 => pool_fee(500, 500, 500, &[250, 250]), // exactly the 20% cap
            2 => pool_fee(self.rng.gen_range(0..100), self.rng.gen_range(0..100), self.rng.gen_range(0..50), &[]),
            3 => pool_fee(1, 1, 1, &[1, 1, 1]),
            4 => match self.rng.gen_range(0..4) {
                0 => pool_fee(0, self.rng.gen_range(1..1900), 0, &[]),
                1 => pool_fee(0, 0, self.rng.gen_range(1..1900), &[]),
                2 => pool_fee(self.rng.gen_range(1..1900), 0, 0, &[]),
                _ => pool_fee(0, 0, 0, &[0, self.rng.gen_range(1..1900)]),
            },
            _ => pool_fee(self.rng.gen_range(0..300), self.rng.gen_range(0..300), self.rng.gen_range(0..300), &[self.rng.gen_range(0..300)]),
        };
        self.explicit_n += 1;
        let id = if self.rng.gen_bool(0.5) {
            // mostly fresh names; now and then a name that shadows how another pool is stored
            // (an automatic identifier such as p.1, or the stored form of an explicit one)
            match self.rng.gen_range(0..6) {
                0 => Some(format!("p.{}", self.rng.gen_range(1..4))),
                1 => obs.pools.keys().collect::<Vec<_>>().choose(&mut self.rng).map(|k| k.to_string()),
                _ => Some(format!("x{}", self.explicit_n)),
            }
        } else {
            None
        };
        let mut op = create_pool_op(w, &sender, &denoms, ty, fees, id.as_deref());
        if stable && self.rng.gen_range(0..6) == 0 {
            // the creator declares the decimals; nothing ties them to a registry
            if let Op::Pm { msg: pm::ExecuteMsg::CreatePool { asset_decimals, .. }, .. } = &mut op {
                for d in asset_decimals.iter_mut() {
                    *d = *[0u8, 1, 3, 6, 9, 18, 19, 24].choose(&mut self.rng).unwrap();
                }
            }
        }
        if !valid {
            if let Op::Pm { msg: pm::ExecuteMsg::CreatePool { asset_denoms, asset_decimals, pool_fees, pool_type, pool_identifier }, funds, .. } = &mut op {
                match self.rng.gen_range(0..10) {
                    0 => {
                        asset_denoms.push(asset_denoms[0].clone());
                        asset_decimals.push(asset_decimals[0]);
                    }
                    1 => {
                        if self.rng.gen_bool(0.5) {
                            asset_decimals.pop();
                        } else {
                            // too few assets for either pool type: one, or none
                            let keep = self.rng.gen_range(0..2);
                            asset_denoms.truncate(keep);
                            asset_decimals.truncate(keep);
                        }
                    }
                    2 => *pool_type = PoolType::StableSwap { amp: 0 },
                    3 => pool_fees.swap_fee = Fee { share: Decimal::percent(100) },
                    4 => pool_fees.extra_fees.push(Fee { share: Decimal::percent(19) }),
                    5 => {
                        // an identifier already taken (whatever the asset list of this request), or a malformed one
                        let taken: Vec<String> = obs.pools.keys().filter_map(|k| k.strip_prefix("o.").map(|x| x.to_string())).collect();
                        *pool_identifier = match taken.choose(&mut self.rng) {
                            Some(t) if self.rng.gen_bool(0.7) => Some(t.clone()),
                            _ => Some("bad id!".to_string()),
                        };
                    }
                    6 => *pool_identifier = Some("a".repeat(60)),
                    7 => {
                        funds.clear();
                    }
                    8 => {
                        if let Some(c) = funds.first_mut() {
                            c.amount += Uint128::new(1);
                        }
                    }
                    _ => {
                        funds.push(coin(7, "uusdt"));
                    }
                }
            }
        }
        Some(op)
    }

    pub fn gen_donate(&mut self, w: &World, obs: &Obs) -> Option<Op> {
        let from = self.user(w);
        let denom = if self.rng.gen_range(0..5) == 0 {
            // an LP denom the sender holds
            obs.pools
                .values()
                .map(|p| p.info.lp_denom.clone())
                .find(|d| obs.bal(&from, d) > 0)
                .unwrap_or_else(|| "uusdc".to_string())
        } else {
            w.cfg.denoms.choose(&mut self.rng)?.0.clone()
        };
        let bal = obs.bal(&from, &denom);
        if bal == 0 {
            return None;
        }
        let amt = log_uniform(&mut self.rng, 1, (bal / 1_000_000).max(2));
        Some(Op::Send {
            from,
            to: w.pm.clone(),
            coins: vec![coin(amt, denom)],
        })
    }

    pub fn gen_admin(&mut self, w: &World, obs: &Obs) -> Option<Op> {
        let sender = if self.rng.gen_range(0..4) == 0 { self.user(w) } else { w.owner.clone() };
        match self.rng.gen_range(0..4) {
            0 if self.allow_toggles && self.toggled.is_none() => {
                let p = self.pick_pool(obs, false)?;
                let pid = p.info.pool_identifier.clone();
                let which = self.rng.gen_range(0..3);
                let op = toggle_op(
                    &sender,
                    &pid,
                    if which == 0 { Some(false) } else { None },
                    if which == 1 { Some(false) } else { None },
                    if which == 2 { Some(false) } else { None },
                );
                if sender == w.owner {
                    self.toggled = Some((pid, self.rng.gen_range(1..6)));
                }
                Some(op)
            }
            1 if self.allow_config => Some(Op::Pm {
                sender,
                msg: pm::ExecuteMsg::UpdateConfig {
                    fee_collector_addr: None,
                    farm_manager_addr: None,
                    pool_creation_fee: Some(coin(*[0u128, 500, 1000, 2500].choose(&mut self.rng).unwrap(), "uom")),
                    feature_toggle: None,
                },
                funds: if self.rng.gen_range(0..8) == 0 { vec![coin(1, "uom")] } else { vec![] },
            }),
            2 if self.allow_config => Some(Op::Pm {
                sender,
                msg: pm::ExecuteMsg::UpdateConfig {
                    // the fee collector may be the contract or a plain account, and changes hands
                    fee_collector_addr: Some(if self.rng.gen_bool(0.5) { w.fc.to_string() } else { w.fc2.to_string() }),
                    farm_manager_addr: Some(w.fm.to_string()),
                    pool_creation_fee: None,
                    feature_toggle: None,
                },
                funds: vec![],
            }),
            _ => Some(toggle_op(&sender, "p.999", Some(false), None, None)),
        }
    }

    pub fn gen_garbage(&mut self, w: &World, obs: &Obs) -> Option<Op> {
        let sender = self.user(w);
        let p = self.pick_pool(obs, true)?;
        let pid = p.info.pool_identifier.clone();
        let a0 = p.info.assets[0].denom.clone();
        let a1 = p.info.assets[1].denom.clone();
        Some(match self.rng.gen_range(0..9) {
            0 => swap_op(&sender, "o.nope", coin(1000, a0), &a1, None, None, None),
            1 => swap_op(&sender, &pid, coin(1000, a0.clone()), &a0, None, None, None),
            2 => swap_op(&sender, &pid, coin(1000, "ux12"), "uwbtc", None, None, None),
            3 => Op::Pm {
                sender,
                msg: pm::ExecuteMsg::Swap {
                    ask_asset_denom: a1,
                    belief_price: None,
                    max_slippage: None,
                    receiver: None,
                    pool_identifier: pid,
                },
                funds: vec![],
            },
            4 => Op::Pm {
                sender,
                msg: pm::ExecuteMsg::Swap {
                    ask_asset_denom: a1.clone(),
                    belief_price: None,
                    max_slippage: None,
                    receiver: None,
                    pool_identifier: pid,
                },
                funds: {
                    let mut f = vec![coin(1000, a0), coin(1000, a1)];
                    f.sort_by(|a, b| a.denom.cmp(&b.denom));
                    f
                },
            },
            5 => Op::Pm {
                sender,
                msg: pm::ExecuteMsg::ExecuteSwapOperations {
                    operations: vec![],
                    minimum_receive: None,
                    receiver: None,
                    max_slippage: None,
                },
                funds: vec![coin(10, a0)],
            },
            6 => Op::Pm {
                sender,
                msg: pm::ExecuteMsg::ExecuteSwapOperations {
                    operations: vec![
                        SwapOperation::MantraSwap { token_in_denom: a0.clone(), token_out_denom: a1.clone(), pool_identifier: pid.clone() },
                        SwapOperation::MantraSwap { token_in_denom: a0.clone(), token_out_denom: a1.clone(), pool_identifier: pid.clone() },
                    ],
                    minimum_receive: None,
                    receiver: None,
                    max_slippage: None,
                },
                funds: vec![coin(100_000, a0)],
            },
            7 => withdraw_op(&sender, &pid, coin(10, a0)),
            _ => provide_op(&sender, "p.404", vec![coin(10, a0)], None, None, None, None, None),
        })
    }

    pub fn next(&mut self, w: &World, obs: &Obs) -> Op {
        if let Some(op) = self.script.pop_front() {
            return op;
        }
        if let Some((pid, left)) = self.toggled.clone() {
            if left == 0 {
                self.toggled = None;
                return toggle_op(&w.owner, &pid, Some(true), Some(true), Some(true));
            }
            self.toggled = Some((pid, left - 1));
        }
        let total: u32 = self.weights.iter().sum();
        for _ in 0..50 {
            let mut r = self.rng.gen_range(0..total);
            let mut k = 0;
            for (i, wt) in self.weights.iter().enumerate() {
                if r < *wt {
                    k = i;
                    break;
                }
                r -= wt;
            }
            let op = match k {
                0 => self.gen_swap(w, obs),
                1 => {
                    let simple = self.rng.gen_range(0..4) != 0;
                    self.gen_route(w, obs, simple)
                }
                2 => self.gen_provide(w, obs),
                3 => self.gen_single(w, obs),
                4 => self.gen_withdraw(w, obs),
                5 => {
                    if self.allow_create {
                        self.gen_create(w, obs)
                    } else {
                        None
                    }
                }
                6 => self.gen_donate(w, obs),
                7 => self.gen_admin(w, obs),
                _ => self.gen_garbage(w, obs),
            };
            if let Some(op) = op {
                return op;
            }
        }
        Op::Advance { secs: 1 }
    }
}

pub fn mul_ppm(x: u128, ppm: u128) -> u128 {
    // x * ppm / 1e6 without overflow for x up to ~1e32
    (x / 1_000_000).saturating_mul(ppm) + (x % 1_000_000) * ppm / 1_000_000
}

pub fn dec(s: &str) -> Decimal {
    Decimal::from_str(s).unwrap()
}
