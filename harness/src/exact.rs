//! Exact (big-integer) reference arithmetic used by the oracles.  Nothing here calls into the
//! contracts' own helpers.

use num_bigint::{BigInt, BigUint, Sign};
use num_integer::Integer;
use num_traits::{One, Signed, ToPrimitive, Zero};

pub fn bi(x: u128) -> BigInt {
    BigInt::from(x)
}

pub fn pow10(e: u32) -> BigInt {
    BigInt::from(10u32).pow(e)
}

pub fn isqrt(n: &BigInt) -> BigInt {
    if n.is_negative() {
        panic!("isqrt of negative");
    }
    BigInt::from_biguint(Sign::Plus, n.magnitude().sqrt())
}

pub fn to_u128(x: &BigInt) -> Option<u128> {
    x.to_u128()
}

/// floor(a*b/c) for non-negative values
pub fn mul_div_floor(a: &BigInt, b: &BigInt, c: &BigInt) -> BigInt {
    (a * b).div_floor(c)
}

pub fn ceil_div(a: &BigInt, b: &BigInt) -> BigInt {
    // b > 0
    let (q, r) = a.div_mod_floor(b);
    if r.is_zero() {
        q
    } else {
        q + 1
    }
}

/// Decimal with 18 places given as atomics -> exact rational (num, den)
pub fn dec18(atomics: u128) -> (BigInt, BigInt) {
    (bi(atomics), pow10(18))
}

// ---------------------------------------------------------------------------------------------
// Curve invariant, this code base's convention: Ann = amp * n.
//
//   F(x, D) = (Ann*S + D - Ann*D) * n^n * P - D^(n+1),   S = sum x_i, P = prod x_i
//
// For fixed x (all > 0) F is strictly decreasing in D > 0 with F(0) > 0 >= F(S): one root.
// For fixed D > 0 and fixed other balances F is a convex quadratic in x_k with F(x_k=0) < 0:
// one positive root, F < 0 below it and > 0 above it.

pub struct Curve {
    pub n: usize,
    pub ann: BigInt,
    nn: BigInt,
}

impl Curve {
    pub fn new(amp: u64, n: usize) -> Curve {
        Curve {
            n,
            ann: BigInt::from(amp) * BigInt::from(n as u64),
            nn: BigInt::from(n as u64).pow(n as u32),
        }
    }

    pub fn f(&self, xs: &[BigInt], d: &BigInt) -> BigInt {
        let mut s = BigInt::zero();
        let mut p = BigInt::one();
        for x in xs {
            s += x;
            p *= x;
        }
        (&self.ann * &s + d - &self.ann * d) * &self.nn * p - d.pow(self.n as u32 + 1)
    }

    /// largest integer D >= 0 with F(xs, D) >= 0  (= floor of the exact root)
    pub fn d_floor(&self, xs: &[BigInt]) -> BigInt {
        if xs.iter().any(|x| !x.is_positive()) {
            return BigInt::zero();
        }
        let s: BigInt = xs.iter().sum();
        // Newton (Curve's integer iteration) for a starting point
        let mut d = s.clone();
        let n_b = BigInt::from(self.n as u64);
        for _ in 0..64 {
            let mut dp = d.clone();
            for x in xs {
                dp = (&dp * &d).div_floor(&(x * &n_b));
            }
            let num = (&self.ann * &s + &dp * &n_b) * &d;
            let den = (&self.ann - BigInt::one()) * &d + (&n_b + BigInt::one()) * &dp;
            if den.is_zero() {
                break;
            }
            let next = num.div_floor(&den);
            let diff = (&next - &d).abs();
            d = next;
            if diff <= BigInt::one() {
                break;
            }
        }
        if d.is_negative() {
            d = BigInt::zero();
        }
        if d > s {
            d = s.clone();
        }
        // bracket around d, then bisect: invariant F(lo) >= 0 > F(hi)
        let mut w = BigInt::from(4u32);
        let (mut lo, mut hi);
        if !self.f(xs, &d).is_negative() {
            lo = d.clone();
            loop {
                hi = &lo + &w;
                if hi > s {
                    hi = &s + BigInt::one(); // F(S+1) < 0
                    break;
                }
                if self.f(xs, &hi).is_negative() {
                    break;
                }
                lo = hi.clone();
                w *= 4;
            }
        } else {
            hi = d.clone();
            loop {
                lo = &hi - &w;
                if !lo.is_positive() {
                    lo = BigInt::zero();
                    break;
                }
                if !self.f(xs, &lo).is_negative() {
                    break;
                }
                hi = lo.clone();
                w *= 4;
            }
        }
        while &hi - &lo > BigInt::one() {
            let mid = (&lo + &hi).div_floor(&BigInt::from(2u32));
            if self.f(xs, &mid).is_negative() {
                hi = mid;
            } else {
                lo = mid;
            }
        }
        lo
    }

    /// smallest integer y >= 1 such that F(xs with xs[k] = y, d) >= 0 (= ceil of the exact root),
    /// `hint` is a starting guess (e.g. the current balance).
    pub fn y_ceil(&self, xs: &[BigInt], k: usize, d: &BigInt, hint: &BigInt) -> BigInt {
        let mut v: Vec<BigInt> = xs.to_vec();
        let mut eval = |y: &BigInt| -> bool {
            v[k] = y.clone();
            !self.f(&v, d).is_negative()
        };
        // invariant: !ok(lo), ok(hi)
        let mut lo;
        let mut hi;
        let start = if hint.is_positive() { hint.clone() } else { BigInt::one() };
        if eval(&start) {
            hi = start.clone();
            let mut w = BigInt::from(4u32);
            loop {
                lo = &hi - &w;
                if !lo.is_positive() {
                    lo = BigInt::zero();
                    break;
                }
                if !eval(&lo) {
                    break;
                }
                hi = lo.clone();
                w *= 4;
            }
        } else {
            lo = start.clone();
            let mut w = BigInt::from(4u32);
            loop {
                hi = &lo + &w;
                if eval(&hi) {
                    break;
                }
                lo = hi.clone();
                w *= 4;
            }
        }
        while &hi - &lo > BigInt::one() {
            let mid = (&lo + &hi).div_floor(&BigInt::from(2u32));
            if eval(&mid) {
                hi = mid;
            } else {
                lo = mid;
            }
        }
        hi
    }
}

/// A stableswap pool state normalised for the exact oracle.
pub struct SsState {
    pub curve: Curve,
    /// reserves normalised to max decimals and multiplied by 10^extra
    pub xs: Vec<BigInt>,
    /// normalised+scaled value of one smallest unit of asset i
    pub unit: Vec<BigInt>,
}

impl SsState {
    pub fn new(amp: u64, reserves: &[u128], decimals: &[u8], extra: u32) -> SsState {
        let maxd = *decimals.iter().max().unwrap() as u32;
        let k = pow10(extra);
        let unit: Vec<BigInt> = decimals
            .iter()
            .map(|d| pow10(maxd - *d as u32) * &k)
            .collect();
        let xs = reserves
            .iter()
            .zip(unit.iter())
            .map(|(r, u)| bi(*r) * u)
            .collect();
        SsState {
            curve: Curve::new(amp, reserves.len()),
            xs,
            unit,
        }
    }

    pub fn d_floor(&self) -> BigInt {
        self.curve.d_floor(&self.xs)
    }

    /// Exact gross output bounds, in scaled normalised units, of offering `offer` smallest
    /// units of asset i for asset j with the invariant held at its exact pre-trade value
    /// D in [d_lo, d_lo + 1].  Returns (out_lo, out_hi) with out_lo <= exact <= out_hi.
    pub fn out_bounds(&self, i: usize, j: usize, offer: &BigInt, d_lo: &BigInt) -> (BigInt, BigInt) {
        let mut xs = self.xs.clone();
        xs[i] += offer * &self.unit[i];
        let y_lo = self.curve.y_ceil(&xs, j, d_lo, &self.xs[j]); // >= exact root for d_lo, < +1
        let d_hi = d_lo + BigInt::one();
        let y_hi = self.curve.y_ceil(&xs, j, &d_hi, &y_lo);
        // exact y(D) in (y_lo - 1, y_hi]
        let out_hi = &self.xs[j] - &y_lo + BigInt::one();
        let out_lo = &self.xs[j] - &y_hi;
        (out_lo, out_hi)
    }
}

// ---------------------------------------------------------------------------------------------
// Lock weight: the documented quadratic through (1 day, 1x), (15 778 463 s, 5x), (31 556 926 s, 16x)

/// exact multiplier as a rational (num, den) for an unlocking duration in seconds
pub fn weight_multiplier(duration: u64) -> (BigInt, BigInt) {
    let pts: [(i128, i128); 3] = [(86_400, 1), (15_778_463, 5), (31_556_926, 16)];
    let x = BigInt::from(duration);
    let mut num = BigInt::zero();
    let mut den = BigInt::one();
    // Lagrange: sum y_i * prod_{j != i} (x - x_j)/(x_i - x_j)
    for i in 0..3 {
        let mut tn = BigInt::from(pts[i].1);
        let mut td = BigInt::one();
        for j in 0..3 {
            if i != j {
                tn *= &x - BigInt::from(pts[j].0);
                td *= BigInt::from(pts[i].0 - pts[j].0);
            }
        }
        // num/den + tn/td
        num = num * &td + tn * &den;
        den *= td;
    }
    if den.is_negative() {
        num = -num;
        den = -den;
    }
    let g = num.gcd(&den);
    (num / &g, den / &g)
}

pub fn biguint_to_string(x: &BigUint) -> String {
    x.to_string()
}

#[cfg(test)]
mod tests {
    use super::*;
    #[test]
    fn d_balanced() {
        let c = Curve::new(100, 2);
        let xs = vec![bi(1_000_000), bi(1_000_000)];
        assert_eq!(c.d_floor(&xs), bi(2_000_000));
    }
}

// ---------------------------------------------------------------------------------------------
// tiny exact rational

#[derive(Clone, Debug)]
pub struct Q {
    pub n: BigInt,
    pub d: BigInt,
}

impl Q {
    pub fn new(n: BigInt, d: BigInt) -> Q {
        if d.is_negative() {
            Q { n: -n, d: -d }
        } else {
            Q { n, d }
        }
    }
    pub fn int(x: u128) -> Q {
        Q { n: bi(x), d: BigInt::one() }
    }
    pub fn ratio(a: u128, b: u128) -> Q {
        Q::new(bi(a), bi(b))
    }
    /// a Decimal (18 places) given by its atomics
    pub fn dec(atomics: u128) -> Q {
        Q::new(bi(atomics), pow10(18))
    }
    pub fn add(&self, o: &Q) -> Q {
        Q::new(&self.n * &o.d + &o.n * &self.d, &self.d * &o.d)
    }
    pub fn sub(&self, o: &Q) -> Q {
        Q::new(&self.n * &o.d - &o.n * &self.d, &self.d * &o.d)
    }
    pub fn mul(&self, o: &Q) -> Q {
        Q::new(&self.n * &o.n, &self.d * &o.d)
    }
    pub fn div(&self, o: &Q) -> Q {
        Q::new(&self.n * &o.d, &self.d * &o.n)
    }
    pub fn lt(&self, o: &Q) -> bool {
        &self.n * &o.d < &o.n * &self.d
    }
    pub fn le(&self, o: &Q) -> bool {
        &self.n * &o.d <= &o.n * &self.d
    }
    pub fn gt(&self, o: &Q) -> bool {
        o.lt(self)
    }
    pub fn ge(&self, o: &Q) -> bool {
        o.le(self)
    }
    pub fn floor(&self) -> BigInt {
        self.n.div_floor(&self.d)
    }
    pub fn min(&self, o: &Q) -> Q {
        if self.le(o) {
            self.clone()
        } else {
            o.clone()
        }
    }
    pub fn is_neg(&self) -> bool {
        self.n.is_negative()
    }
    pub fn to_f64(&self) -> f64 {
        let s = pow10(12);
        ((&self.n * &s).div_floor(&self.d)).to_f64().unwrap_or(f64::NAN) / 1e12
    }
}
