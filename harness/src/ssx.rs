//! Exact stableswap judgements shared by C02 / C03 / C19 (all big-integer, see exact.rs).

use num_bigint::BigInt;
use num_integer::Integer;
use num_traits::{Signed, ToPrimitive, Zero};

use crate::exact::{bi, ceil_div, SsState};

pub const EXTRA: u32 = 6;

pub fn skew(reserves: &[u128], decimals: &[u8]) -> f64 {
    let maxd = *decimals.iter().max().unwrap() as i32;
    let norm: Vec<f64> = reserves
        .iter()
        .zip(decimals)
        .map(|(r, d)| *r as f64 * 10f64.powi(maxd - *d as i32))
        .collect();
    let mx = norm.iter().cloned().fold(0.0, f64::max);
    let mn = norm.iter().cloned().fold(f64::INFINITY, f64::min);
    if mn <= 0.0 {
        f64::INFINITY
    } else {
        mx / mn
    }
}

#[derive(Debug, Clone)]
pub struct Band {
    /// 2 units of the ask token + ceil(value of two offered units), in ask units
    pub units: u128,
}

/// the accuracy band the statement of C19 grants a quote: two smallest units of the output
/// token plus the (exact) value of two smallest units of the offered token
pub fn band(st0: &SsState, d0: &BigInt, i: usize, j: usize) -> Band {
    let (_, hi) = st0.out_bounds(i, j, &bi(2), d0);
    let v2 = ceil_div(&hi.max(BigInt::zero()), &st0.unit[j]);
    Band {
        units: 2 + v2.to_u128().unwrap_or(u128::MAX / 4),
    }
}

#[derive(Debug, Clone)]
pub enum InvariantVerdict {
    /// exact D after >= exact D before (to within 10^-EXTRA of a normalised unit)
    Held,
    /// exact D dropped. `deficit` = how far the ask reserve is below the invariant-preserving
    /// value, in smallest units of the ask token (fractional; never over-estimated);
    /// `band` = the C19 accuracy band for this trade, in the same units.
    Dropped { deficit: f64, band: f64, within_band: bool, within_8_bands: bool },
}

fn ratio_f64(a: &BigInt, b: &BigInt) -> f64 {
    // a/b for positive big integers, without overflowing f64 on the way
    let scale = BigInt::from(10u64.pow(9));
    let q = (a * &scale).div_floor(b);
    q.to_f64().unwrap_or(f64::INFINITY) / 1e9
}

/// Did a swap hop (offer asset i, ask asset j) reduce the exact invariant?
pub fn hop_invariant(amp: u64, decimals: &[u8], before: &[u128], after: &[u128], i: usize, j: usize) -> InvariantVerdict {
    let st0 = SsState::new(amp, before, decimals, EXTRA);
    let st1 = SsState::new(amp, after, decimals, EXTRA);
    let d0 = st0.d_floor();
    let d1 = st1.d_floor();
    if d1 >= d0 {
        return InvariantVerdict::Held;
    }
    // smallest ask reserve that keeps D >= d0 (d0 <= exact D before, so this under-estimates)
    let need = st1.curve.y_ceil(&st1.xs, j, &d0, &st1.xs[j]);
    let short = &need - &st1.xs[j] - BigInt::from(1u32); // y_ceil rounds up by < 1 scaled unit
    if !short.is_positive() {
        return InvariantVerdict::Held;
    }
    let b = band(&st0, &d0, i, j);
    let band_scaled = BigInt::from(b.units) * &st1.unit[j];
    InvariantVerdict::Dropped {
        deficit: ratio_f64(&short, &st1.unit[j]),
        band: b.units as f64,
        within_band: short <= band_scaled,
        within_8_bands: short <= &band_scaled * BigInt::from(8u32),
    }
}

/// value of one smallest unit of asset i in smallest units of asset j at the margin of the
/// given state (upper estimate: half of the exact output of a 2-unit offer, rounded up)
pub fn marginal_price(amp: u64, decimals: &[u8], reserves: &[u128], i: usize, j: usize) -> f64 {
    let st0 = SsState::new(amp, reserves, decimals, EXTRA);
    let d0 = st0.d_floor();
    let b = band(&st0, &d0, i, j);
    (b.units.saturating_sub(2)) as f64 / 2.0
}

/// floor(exact D) in normalised (max-decimals) smallest units, no guard digits
pub fn d_units(amp: u64, decimals: &[u8], reserves: &[u128]) -> BigInt {
    SsState::new(amp, reserves, decimals, 0).d_floor()
}

pub fn low_amp_or_skewed(amp: u64, n: usize, reserves: &[u128], decimals: &[u8]) -> bool {
    (amp as u128) * (n as u128) < 100 || skew(reserves, decimals) >= 100.0
}

/// how many accuracy bands an over-quote may reach in the low-amplification / high-skew regime
/// before it stops being attributed to the recorded solver-truncation finding (KF-C19-b / KF-C03-b).
/// Calibrated on 8.07e7 quotes: worst seen 9.3 bands (amp 1, 4 assets, skew 977); this allows
/// 8 + n*skew/100 bands, i.e. ~47 there and ~11 at skew 100.
pub fn kf_b_cap(n: usize, skew: f64) -> f64 {
    8.0 + (n as f64) * skew.min(2000.0) / 100.0
}

/// the fixed-point collapse regime of the swap path (KF-C19-d / KF-C03-c): tokens with >= 9
/// decimals and a normalised pool total below 10^(2*maxdec-17) smallest units
pub fn collapse_regime(reserves: &[u128], decimals: &[u8]) -> bool {
    let maxd = *decimals.iter().max().unwrap() as u32;
    if maxd < 9 {
        return false;
    }
    let total: BigInt = reserves.iter().zip(decimals.iter()).map(|(r, d)| bi(*r) * crate::exact::pow10(maxd - *d as u32)).sum();
    total < crate::exact::pow10(2 * maxd - 17)
}
