//! Clause bookkeeping, three-valued verdicts, known findings, evidence and replay files.

use std::collections::{BTreeMap, BTreeSet, HashSet};
use std::hash::{Hash, Hasher};

use serde::{Deserialize, Serialize};
use serde_json::{json, Value};

pub fn hash_of<T: Hash>(t: &T) -> u64 {
    let mut h = std::collections::hash_map::DefaultHasher::new();
    t.hash(&mut h);
    h.finish()
}

#[derive(Clone, Debug, Serialize, Deserialize)]
pub struct KnownFinding {
    pub id: String,
    pub property: String,
    pub clause: String,
    /// "known" (still present, suppressed when the signature matches) or "fixed"
    pub status: String,
    pub what: String,
    #[serde(default)]
    pub signature: String,
    #[serde(default)]
    pub witness: Value,
    #[serde(default)]
    pub fixed_in: Option<String>,
}

#[derive(Clone, Debug, Default, Serialize, Deserialize)]
pub struct KnownFindings {
    pub findings: Vec<KnownFinding>,
}

impl KnownFindings {
    pub fn load() -> KnownFindings {
        let path = format!("{}/known_findings.json", crate::verif_dir());
        match std::fs::read_to_string(&path) {
            Ok(s) => serde_json::from_str(&s).unwrap_or_else(|e| {
                eprintln!("HARNESS-ERROR: cannot parse {path}: {e}");
                std::process::exit(4)
            }),
            Err(_) => KnownFindings::default(),
        }
    }
    pub fn is_known(&self, id: &str) -> bool {
        self.findings.iter().any(|f| f.id == id && f.status == "known")
    }
    pub fn get(&self, id: &str) -> Option<&KnownFinding> {
        self.findings.iter().find(|f| f.id == id)
    }
}

#[derive(Clone, Debug, Serialize)]
pub struct Violation {
    pub clause: String,
    pub detail: String,
    pub witness: Value,
}

#[derive(Default, Clone)]
pub struct Clause {
    pub evals: u64,
    pub distinct: HashSet<u64>,
    pub samples: Vec<Value>,
    /// samples the monitor marked as the interesting kind (shown first in the evidence)
    pub rich: Vec<Value>,
    pub violations: Vec<Violation>,
    pub n_violations: u64,
    pub kf_hits: BTreeMap<String, u64>,
    pub kf_samples: BTreeMap<String, Vec<Value>>,
    pub boundary: u64,
    pub skipped: u64,
    pub counters: BTreeMap<String, u64>,
    /// minimum number of evaluations for the clause to count as observed
    pub floor: u64,
}

#[derive(Default)]
pub struct Reporter {
    pub property: String,
    pub clauses: BTreeMap<String, Clause>,
    pub notes: BTreeSet<String>,
    pub counters: BTreeMap<String, u64>,
    pub kf: KnownFindings,
    pub pinned: Vec<(String, bool, String)>, // (kf id, still fails, what)
    pub inconclusive: Vec<String>,
    pub max_samples: usize,
    pub states: HashSet<u64>,
    pub transitions: u64,
}

impl Reporter {
    pub fn new(property: &str) -> Reporter {
        Reporter {
            property: property.to_string(),
            kf: KnownFindings::load(),
            max_samples: 4,
            ..Default::default()
        }
    }

    pub fn clause(&mut self, name: &str) -> &mut Clause {
        self.clauses.entry(name.to_string()).or_default()
    }

    pub fn floor(&mut self, name: &str, floor: u64) {
        self.clause(name).floor = floor;
    }

    /// One evaluation of `clause` that held. `abs` is the abstraction hash used to count
    /// distinct non-trivial cases; `sample` is built lazily for the first few.
    pub fn held(&mut self, clause: &str, abs: u64, sample: impl FnOnce() -> Value) {
        let max = self.max_samples;
        let c = self.clause(clause);
        c.evals += 1;
        let new = c.distinct.insert(abs);
        if new && c.samples.len() < max {
            c.samples.push(sample());
        }
    }

    /// like `held`, for a case of the interesting kind (e.g. a claim that actually paid something)
    pub fn held_rich(&mut self, clause: &str, abs: u64, sample: impl FnOnce() -> Value) {
        let max = self.max_samples;
        let c = self.clause(clause);
        c.evals += 1;
        let new = c.distinct.insert(abs);
        *c.counters.entry("rich_cases".to_string()).or_default() += 1;
        if c.rich.len() < max && (new || c.rich.len() < 2) {
            c.rich.push(sample());
        }
    }

    pub fn count(&mut self, clause: &str, key: &str) {
        *self.clause(clause).counters.entry(key.to_string()).or_default() += 1;
    }

    pub fn gcount(&mut self, key: &str) {
        *self.counters.entry(key.to_string()).or_default() += 1;
    }

    pub fn gadd(&mut self, key: &str, n: u64) {
        *self.counters.entry(key.to_string()).or_default() += n;
    }

    pub fn boundary(&mut self, clause: &str) {
        let c = self.clause(clause);
        c.evals += 1;
        c.boundary += 1;
    }

    pub fn skipped(&mut self, clause: &str) {
        self.clause(clause).skipped += 1;
    }

    pub fn note(&mut self, s: impl Into<String>) {
        if self.notes.len() < 64 {
            self.notes.insert(s.into());
        }
    }

    /// A clause evaluation that failed. If `kf` names a finding whose signature the witness
    /// satisfies AND the committed known-findings file lists it as known, it is counted as a
    /// known-finding hit; otherwise it is a violation.
    pub fn failed(&mut self, clause: &str, kf: Option<&str>, detail: String, witness: Value) {
        let known = kf.map(|k| self.kf.is_known(k)).unwrap_or(false);
        let c = self.clause(clause);
        c.evals += 1;
        if known {
            let k = kf.unwrap().to_string();
            *c.kf_hits.entry(k.clone()).or_default() += 1;
            let v = c.kf_samples.entry(k).or_default();
            if v.len() < 2 {
                v.push(json!({"detail": detail, "witness": witness}));
            }
        } else {
            c.n_violations += 1;
            if std::env::var("VERIF_DUMP").is_ok() {
                eprintln!("DUMP {} {} {}", clause, detail, witness["observed"]);
            }
            if c.violations.len() < 5 {
                c.violations.push(Violation {
                    clause: clause.to_string(),
                    detail,
                    witness,
                });
            }
        }
    }

    pub fn pinned(&mut self, kf_id: &str, still_fails: bool, what: &str) {
        self.pinned.push((kf_id.to_string(), still_fails, what.to_string()));
    }

    pub fn inconclusive(&mut self, why: impl Into<String>) {
        self.inconclusive.push(why.into());
    }

    pub fn merge(&mut self, other: Reporter) {
        for (k, c) in other.clauses {
            let max = self.max_samples;
            let d = self.clause(&k);
            d.evals += c.evals;
            d.n_violations += c.n_violations;
            d.boundary += c.boundary;
            d.skipped += c.skipped;
            d.floor = d.floor.max(c.floor);
            for h in c.distinct {
                d.distinct.insert(h);
            }
            for s in c.samples {
                if d.samples.len() < max {
                    d.samples.push(s);
                }
            }
            for s in c.rich {
                if d.rich.len() < max {
                    d.rich.push(s);
                }
            }
            for v in c.violations {
                if d.violations.len() < 5 {
                    d.violations.push(v);
                }
            }
            for (k, n) in c.kf_hits {
                *d.kf_hits.entry(k).or_default() += n;
            }
            for (k, v) in c.kf_samples {
                let e = d.kf_samples.entry(k).or_default();
                for s in v {
                    if e.len() < 2 {
                        e.push(s);
                    }
                }
            }
            for (k, n) in c.counters {
                *d.counters.entry(k).or_default() += n;
            }
        }
        for n in other.notes {
            self.note(n);
        }
        for (k, n) in other.counters {
            *self.counters.entry(k).or_default() += n;
        }
        self.pinned.extend(other.pinned);
        self.inconclusive.extend(other.inconclusive);
        for h in other.states {
            self.states.insert(h);
        }
        self.transitions += other.transitions;
    }

    pub fn finish_check(&mut self) {}

    pub fn total_violations(&self) -> u64 {
        self.clauses.values().map(|c| c.n_violations).sum()
    }

    /// Writes evidence + replay files, prints the verdict lines, returns the exit code.
    pub fn finish(
        mut self,
        tier: &str,
        seed: u64,
        level: &str,
        rule: &str,
        assumptions: &[&str],
        wall_s: f64,
        extra: Value,
    ) -> i32 {
        let vdir = crate::verif_dir();
        // coverage floors
        for (name, c) in self.clauses.iter() {
            if c.floor > 0 && c.evals < c.floor {
                self.inconclusive.push(format!(
                    "clause={name} evaluated {} < floor {}",
                    c.evals, c.floor
                ));
            }
        }
        // pinned witnesses of known findings
        let mut kf_lines = vec![];
        for (id, still, what) in &self.pinned {
            match self.kf.get(id) {
                Some(f) if f.status == "known" => {
                    if *still {
                        kf_lines.push(format!("KNOWN-FINDING: property={} {} {}", self.property, id, what));
                    } else {
                        self.notes.insert(format!(
                            "pinned witness of {id} no longer fails on this tree (finding may have been repaired)"
                        ));
                    }
                }
                Some(_) | None => {
                    if *still {
                        // a repaired or unlisted finding whose witness fails again is a violation
                        let c = self.clauses.entry(format!("pinned:{id}")).or_default();
                        c.evals += 1;
                        c.n_violations += 1;
                        c.violations.push(Violation {
                            clause: format!("pinned:{id}"),
                            detail: format!("pinned witness fails and {id} is not listed as known: {what}"),
                            witness: json!({"pinned": id}),
                        });
                    }
                }
            }
        }
        // random-workload hits of known findings also produce a line each (once per id)
        let mut hit_ids: BTreeSet<String> = BTreeSet::new();
        for c in self.clauses.values() {
            for (k, n) in &c.kf_hits {
                if *n > 0 {
                    hit_ids.insert(k.clone());
                }
            }
        }
        for id in &hit_ids {
            if !self.pinned.iter().any(|(p, still, _)| p == id && *still) {
                if let Some(f) = self.kf.get(id) {
                    kf_lines.push(format!("KNOWN-FINDING: property={} {} {}", self.property, id, f.what));
                }
            }
        }

        let evaluations: u64 = self.clauses.values().map(|c| c.evals).sum();
        let distinct: u64 = self.clauses.values().map(|c| c.distinct.len() as u64).sum();
        let mut samples: Vec<Value> = vec![];
        let mut per_clause = serde_json::Map::new();
        for (name, c) in &self.clauses {
            for s in c.rich.iter().take(2).chain(c.samples.iter().take(if c.rich.is_empty() { 2 } else { 1 })) {
                samples.push(json!({"clause": name, "case": s}));
            }
            per_clause.insert(
                name.clone(),
                json!({
                    "evaluations": c.evals,
                    "distinct_nontrivial": c.distinct.len(),
                    "violations": c.n_violations,
                    "boundary_band_hits": c.boundary,
                    "skipped": c.skipped,
                    "known_finding_hits": c.kf_hits,
                    "known_finding_samples": c.kf_samples,
                    "counters": c.counters,
                    "floor": c.floor,
                }),
            );
        }
        if samples.is_empty() {
            samples.push(json!("no clause evaluated"));
        }
        let violations = self.total_violations();

        // replay files
        let mut viol_lines = vec![];
        if violations > 0 {
            let _ = std::fs::create_dir_all(format!("{vdir}/replays"));
            let mut n = 0;
            for (name, c) in &self.clauses {
                for v in &c.violations {
                    let path = format!("{vdir}/replays/{}-{}-{}-{}.json", self.property, tier, seed, n);
                    n += 1;
                    let body = json!({
                        "property": self.property, "tier": tier, "seed": seed, "clause": name,
                        "detail": v.detail, "witness": v.witness,
                        "replay": format!("./check.sh {} {} (VERIF_SEED={seed}) re-runs the identical deterministic workload", self.property, tier),
                    });
                    let _ = std::fs::write(&path, serde_json::to_string_pretty(&body).unwrap());
                    viol_lines.push(format!(
                        "VIOLATION property={} replay={} clause={} {}",
                        self.property,
                        path,
                        name,
                        crate::world::trunc(&v.detail, 400)
                    ));
                }
            }
        }

        let verdict = if violations > 0 {
            "violated"
        } else if !self.inconclusive.is_empty() {
            "inconclusive"
        } else {
            "held_on_observed"
        };
        let mut coverage = json!({
            "evaluations": evaluations.max(1),
            "distinct_nontrivial": distinct,
            "rule": rule,
            "samples": samples,
            "per_clause": per_clause,
            "counters": self.counters,
            "notes": self.notes,
            "verdict": verdict,
            "inconclusive_reasons": self.inconclusive,
            "known_finding_lines": kf_lines,
            "states": self.states.len(),
            "transitions": self.transitions,
        });
        if let (Value::Object(m), Value::Object(e)) = (&mut coverage, extra) {
            for (k, v) in e {
                m.insert(k, v);
            }
        }
        let ev = json!({
            "property_id": self.property,
            "tier": tier,
            "seed": seed,
            "level": level,
            "coverage": coverage,
            "assumptions": assumptions,
            "wall_s": wall_s,
            "violations": violations,
        });
        let _ = std::fs::create_dir_all(format!("{vdir}/evidence"));
        let path = format!("{vdir}/evidence/{}.json", self.property);
        if let Err(e) = std::fs::write(&path, serde_json::to_string_pretty(&ev).unwrap()) {
            eprintln!("HARNESS-ERROR: cannot write {path}: {e}");
            return 4;
        }

        for l in &kf_lines {
            println!("{l}");
        }
        println!(
            "{} tier={} seed={} verdict={} evaluations={} distinct={} violations={} wall_s={:.1}",
            self.property, tier, seed, verdict, evaluations, distinct, violations, wall_s
        );
        for (name, c) in &self.clauses {
            println!(
                "  clause {:<28} evals={:<9} distinct={:<7} viol={:<4} boundary={:<6} kf={:?}",
                name,
                c.evals,
                c.distinct.len(),
                c.n_violations,
                c.boundary,
                c.kf_hits
            );
        }
        if violations > 0 {
            for l in viol_lines {
                println!("{l}");
            }
            return 1;
        }
        if !self.inconclusive.is_empty() {
            for r in &self.inconclusive {
                println!("INCONCLUSIVE property={} reason={}", self.property, r);
            }
            return 3;
        }
        0
    }
}
