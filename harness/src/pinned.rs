//! Pinned witnesses: one exact scripted input/history per recorded finding, replayed at the start
//! of every run of the property it belongs to.  A finding listed as "known" whose witness still
//! fails prints a KNOWN-FINDING line; a finding listed as "fixed" whose witness fails again is a
//! violation (the defect has returned).

use cosmwasm_std::{coin, Coin, Decimal};
use mantra_dex_std::farm_manager::{FarmAction, FarmParams, PositionAction};
use mantra_dex_std::pool_manager as pm;
use mantra_dex_std::pool_manager::PoolType;

use crate::farmobs::{all_weights, weight_at};
use crate::ops::observe;
use crate::report::Reporter;
use crate::ssx::{hop_invariant, InvariantVerdict};
use crate::wfarm::{claim_op, farm_funds, farm_op, pos_op};
use crate::world::{World, WorldCfg};
use crate::wpool::{create_pool_op, pool_fee, provide_op, swap_op, withdraw_op};

const DAY: u64 = 86_400;

fn world(farm_fee: Coin) -> World {
    World::new(WorldCfg { farm_fee, ..WorldCfg::default() })
}

fn must(o: crate::world::Outcome, what: &str) {
    if !o.is_ok() {
        panic!("pinned scenario setup failed at '{what}': {}", o.short());
    }
}

fn farm(lp: &str, reward: Coin, start: u64, end: u64, id: &str) -> FarmAction {
    FarmAction::Create {
        params: FarmParams {
            lp_denom: lp.to_string(),
            start_epoch: Some(start),
            preliminary_end_epoch: Some(end),
            curve: None,
            farm_asset: reward,
            farm_identifier: Some(id.to_string()),
        },
    }
}

/// two pools a (uom/uusdc) and b (uusdc/uusdt) with LP in users 0..3
fn two_pools(w: &mut World) -> (String, String) {
    let u0 = w.users[0].clone();
    let op = create_pool_op(w, &u0, &["uom", "uusdc"], PoolType::ConstantProduct, pool_fee(0, 30, 0, &[]), Some("a"));
    must(w.apply(&op), "pool a");
    let op = create_pool_op(w, &u0, &["uusdc", "uusdt"], PoolType::StableSwap { amp: 100 }, pool_fee(0, 4, 0, &[]), Some("b"));
    must(w.apply(&op), "pool b");
    for u in w.users.clone().iter().take(4) {
        must(w.apply(&provide_op(u, "o.a", vec![coin(5_000_000_000, "uom"), coin(1_000_000_000, "uusdc")], None, None, None, None, None)), "lp a");
        must(w.apply(&provide_op(u, "o.b", vec![coin(1_000_000_000, "uusdc"), coin(1_000_000_000, "uusdt")], None, None, None, None, None)), "lp b");
    }
    (w.lp_denom("o.a"), w.lp_denom("o.b"))
}

fn paid(out: &crate::world::Outcome, w: &World, to: &cosmwasm_std::Addr, denom: &str) -> u128 {
    out.log()
        .iter()
        .filter(|e| e.from == w.fm.as_str() && e.to == to.as_str())
        .flat_map(|e| e.coins.iter())
        .filter(|c| c.denom == denom)
        .map(|c| c.amount.u128())
        .sum()
}

/// KF-C06-a: a claim bounded by an epoch earlier than a weight change rewinds the user's history
pub fn c06_a() -> (bool, String) {
    let mut w = world(coin(1_000, "uom"));
    let (lp_a, _) = two_pools(&mut w);
    let (a, b, creator) = (w.users[0].clone(), w.users[1].clone(), w.users[2].clone());
    let reward = coin(12_000, "uusdc");
    must(w.apply(&farm_op(&creator, farm(&lp_a, reward.clone(), 1, 13, "w"), farm_funds(&reward, &coin(1_000, "uom")))), "farm");
    must(w.apply(&pos_op(&a, PositionAction::Create { identifier: None, unlocking_duration: DAY, receiver: None }, vec![coin(1_000_000, lp_a.clone())])), "A opens");
    w.advance(6 * DAY);
    must(w.apply(&pos_op(&b, PositionAction::Create { identifier: None, unlocking_duration: DAY, receiver: None }, vec![coin(1_000_000, lp_a.clone())])), "B opens at epoch 6");
    let c1 = w.apply(&claim_op(&b, Some(2)));
    let p1 = paid(&c1, &w, &b, "uusdc");
    let c2 = w.apply(&claim_op(&b, None));
    let p2 = paid(&c2, &w, &b, "uusdc");
    // B's weight takes effect in epoch 7; through epoch 6 nothing is due
    let fails = p1 + p2 > 0;
    (fails, format!("B opens a position in epoch 6, Claim{{until_epoch:2}} pays {p1}, Claim{{}} pays {p2} uusdc for epochs before its weight took effect (rightful 0)"))
}

/// KF-C07-a: the epoch of the contract's earliest total-weight snapshot is skipped
pub fn c07_a() -> (bool, String) {
    let mut w = world(coin(1_000, "uom"));
    let (lp_a, lp_b) = two_pools(&mut w);
    let (u, creator) = (w.users[0].clone(), w.users[2].clone());
    let r1 = coin(40_000, "uusdc");
    let r2 = coin(40_000, "uusdt");
    must(w.apply(&farm_op(&creator, farm(&lp_a, r1.clone(), 1, 41, "one"), farm_funds(&r1, &coin(1_000, "uom")))), "farm 1");
    must(w.apply(&farm_op(&creator, farm(&lp_b, r2.clone(), 1, 41, "two"), farm_funds(&r2, &coin(1_000, "uom")))), "farm 2");
    must(w.apply(&pos_op(&u, PositionAction::Create { identifier: None, unlocking_duration: DAY, receiver: None }, vec![coin(1_000_000, lp_a.clone())])), "LP1 position");
    w.advance(5 * DAY);
    must(w.apply(&claim_op(&u, None)), "claim at 5");
    w.advance(3 * DAY);
    must(w.apply(&pos_op(&u, PositionAction::Create { identifier: None, unlocking_duration: DAY, receiver: None }, vec![coin(1_000_000, lp_b.clone())])), "first ever LP2 position at epoch 8");
    w.advance(3 * DAY);
    let c = w.apply(&claim_op(&u, None));
    let got = paid(&c, &w, &u, "uusdt");
    // sole LP2 holder with weight in effect in epochs 9, 10, 11: 3 x 1000
    (got != 3_000, format!("sole holder of the LP token in epochs 9..11 is paid {got} uusdt instead of 3000 (the epoch of the contract's first weight snapshot is skipped)"))
}

/// KF-C10-a: closing subtracts a recomputed weight from the total
pub fn c10_a() -> (bool, String) {
    let mut w = world(coin(0, "uom"));
    let (lp_a, _) = two_pools(&mut w);
    let (a, b) = (w.users[0].clone(), w.users[1].clone());
    must(w.apply(&pos_op(&b, PositionAction::Create { identifier: None, unlocking_duration: DAY, receiver: None }, vec![coin(2, lp_a.clone())])), "B 2 LP");
    must(w.apply(&pos_op(&a, PositionAction::Create { identifier: Some("x".into()), unlocking_duration: 5_000_000, receiver: None }, vec![coin(1, lp_a.clone())])), "A 1 LP");
    must(w.apply(&pos_op(&a, PositionAction::Expand { identifier: "u-x".into() }, vec![coin(1, lp_a.clone())])), "A +1");
    must(w.apply(&pos_op(&a, PositionAction::Expand { identifier: "u-x".into() }, vec![coin(1, lp_a.clone())])), "A +1");
    must(w.apply(&pos_op(&a, PositionAction::Close { identifier: "u-x".into(), lp_asset: None }, vec![])), "A closes");
    let ws = all_weights(&w);
    let total = weight_at(ws.get(&(w.fm.to_string(), lp_a.clone())), 1);
    let bw = weight_at(ws.get(&(b.to_string(), lp_a.clone())), 1);
    (total < bw, format!("after A (three 1-LP pieces at 5 000 000 s) closes in full, the total weight for the next epoch is {total} while B alone holds {bw}"))
}

/// KF-C11-a: zero farm fee in a denom other than the reward
pub fn c11_a() -> (bool, String) {
    let mut w = world(coin(0, "uusdt"));
    let (lp_a, _) = two_pools(&mut w);
    let creator = w.users[2].clone();
    let reward = coin(5_000, "uusdc");
    let exact = w.apply(&farm_op(&creator, farm(&lp_a, reward.clone(), 1, 6, "e"), vec![reward.clone()]));
    let mut with_stray = vec![reward.clone(), coin(9, "uom")];
    with_stray.sort_by(|x, y| x.denom.cmp(&y.denom));
    let before = w.balance(&creator, "uom");
    let stray = w.apply(&farm_op(&creator, farm(&lp_a, reward, 1, 6, "s"), with_stray));
    let kept = before - w.balance(&creator, "uom");
    let fails = !exact.is_ok() || (stray.is_ok() && kept > 0);
    (fails, format!("with a zero creation fee in uusdt, a farm paying 5000uusdc with exactly [5000uusdc] attached: {}; with an unrelated 9uom added: {} (kept {kept}uom)", exact.short(), stray.short()))
}

/// KF-C11-b: a farm whose end epoch is u64::MAX makes `end + 1` overflow wherever the farm
/// manager asks whether that farm has expired: every later farm creation on the LP token and
/// every emergency withdrawal of a position in it aborts
pub fn c11_b() -> (bool, String) {
    let mut w = world(coin(1_000, "uom"));
    let (lp_a, _) = two_pools(&mut w);
    let (staker, hostile, creator) = (w.users[0].clone(), w.users[1].clone(), w.users[2].clone());
    must(w.apply(&pos_op(&staker, PositionAction::Create { identifier: Some("s".into()), unlocking_duration: 30 * DAY, receiver: None }, vec![coin(1_000_000, lp_a.clone())])), "position");
    let junk = coin(2_000, "uusdc");
    must(w.apply(&farm_op(&hostile, farm(&lp_a, junk.clone(), 1, u64::MAX, "forever"), farm_funds(&junk, &coin(1_000, "uom")))), "open-ended farm");
    w.advance(2 * DAY);
    let reward = coin(5_000, "uusdc");
    let create = w.apply(&farm_op(&creator, farm(&lp_a, reward.clone(), 3, 8, "next"), farm_funds(&reward, &coin(1_000, "uom"))));
    let exit = w.apply(&pos_op(&staker, PositionAction::Withdraw { identifier: "u-s".into(), emergency_unlock: Some(true) }, vec![]));
    let fails = !create.is_ok() || !exit.is_ok();
    (fails, format!("after somebody created a 2000uusdc farm with preliminary_end_epoch = u64::MAX on an LP token: another user's farm creation on that LP token: {}; emergency withdrawal of a position in it: {}", create.short(), exit.short()))
}

/// KF-C11-c: a farm ending in the last weeks the chain's nanosecond clock can hold (year 2554)
/// makes `end time + farm_expiration_time` overflow wherever the farm manager asks whether that
/// farm has expired: every later farm creation on the LP token and every emergency withdrawal of
/// a position in it aborts
pub fn c11_c() -> (bool, String) {
    let mut w = world(coin(1_000, "uom"));
    let (lp_a, _) = two_pools(&mut w);
    let (staker, hostile, creator) = (w.users[0].clone(), w.users[1].clone(), w.users[2].clone());
    must(w.apply(&pos_op(&staker, PositionAction::Create { identifier: Some("s".into()), unlocking_duration: 30 * DAY, receiver: None }, vec![coin(1_000_000, lp_a.clone())])), "position");
    let junk = coin(2_000, "uusdc");
    // the epoch after the farm's last one still starts within the clock's range, a month later does not
    let last = (18_446_744_073u64 - w.cfg.start_time) / w.cfg.epoch_duration;
    must(w.apply(&farm_op(&hostile, farm(&lp_a, junk.clone(), 1, last - 3, "y2554"), farm_funds(&junk, &coin(1_000, "uom")))), "far-future farm");
    w.advance(2 * DAY);
    let reward = coin(5_000, "uusdc");
    let create = w.apply(&farm_op(&creator, farm(&lp_a, reward.clone(), 3, 8, "next"), farm_funds(&reward, &coin(1_000, "uom"))));
    let exit = w.apply(&pos_op(&staker, PositionAction::Withdraw { identifier: "u-s".into(), emergency_unlock: Some(true) }, vec![]));
    let fails = !create.is_ok() || !exit.is_ok();
    (fails, format!("after somebody created a 2000uusdc farm with preliminary_end_epoch = {} (ends in the year 2554) on an LP token: another user's farm creation on that LP token: {}; emergency withdrawal of a position in it: {}", last - 3, create.short(), exit.short()))
}

/// KF-C02-a: withdrawal share truncated to 18 decimals
pub fn c02_a() -> (bool, String) {
    let mut w = world(coin(0, "uom"));
    let u = w.users[0].clone();
    let op = create_pool_op(&w, &u, &["uusdc", "ueth"], PoolType::ConstantProduct, pool_fee(0, 0, 0, &[]), Some("big"));
    must(w.apply(&op), "pool");
    must(w.apply(&provide_op(&u, "o.big", vec![coin(3_000_000_000_000, "uusdc"), coin(10u128.pow(21), "ueth")], None, None, None, None, None)), "deposit");
    let lp = w.lp_denom("o.big");
    let o = observe(&w);
    let p = &o.pools["o.big"];
    let sup = p.supply;
    let burn = 999_999_999_999u128;
    let r_eth = p.reserve("ueth");
    let b0 = w.balance(&u, "ueth");
    must(w.apply(&withdraw_op(&u, "o.big", coin(burn, lp.clone()))), "withdraw");
    let got = w.balance(&u, "ueth") - b0;
    let exact = (num_bigint::BigInt::from(r_eth) * num_bigint::BigInt::from(burn) / num_bigint::BigInt::from(sup)).to_string().parse::<u128>().unwrap();
    let short = exact - got;
    // and a dust amount worth >= 1 unit that cannot be redeemed
    let r = w.apply(&withdraw_op(&u, "o.big", coin(3, lp)));
    (short > 1 || !r.is_ok(), format!("withdrawing {burn}/{sup} LP pays {got}ueth, {short} units below reserve x burned / supply; redeeming 3 LP (worth ~{} ueth units): {}", 3 * r_eth / sup, r.short()))
}

/// KF-C03-a: a zero-fee stableswap swap lowers the exact invariant
pub fn c03_a() -> (bool, String) {
    let mut w = world(coin(0, "uom"));
    let u = w.users[0].clone();
    let op = create_pool_op(&w, &u, &["uusdc", "uusdt"], PoolType::StableSwap { amp: 100 }, pool_fee(0, 0, 0, &[]), Some("s"));
    must(w.apply(&op), "pool");
    must(w.apply(&provide_op(&u, "o.s", vec![coin(2_000_000_000_000, "uusdc"), coin(2_000_000_000_000, "uusdt")], None, None, None, None, None)), "deposit");
    let mut drops = 0;
    let mut worst = 0.0f64;
    let offers = [1u128, 7, 1_000_003, 3, 11, 999_983, 5, 123_457, 2, 77_777_777, 13, 1_000_000_007];
    for (k, amt) in offers.iter().enumerate() {
        let (din, dout) = if k % 2 == 0 { ("uusdc", "uusdt") } else { ("uusdt", "uusdc") };
        let before = observe(&w).pools["o.s"].canon_reserves();
        let out = w.apply(&swap_op(&u, "o.s", coin(*amt, din), dout, None, Some(Decimal::percent(50)), None));
        if !out.is_ok() {
            continue;
        }
        let after = observe(&w).pools["o.s"].canon_reserves();
        let (i, j) = if k % 2 == 0 { (0, 1) } else { (1, 0) };
        if let InvariantVerdict::Dropped { deficit, .. } = hop_invariant(100, &[6, 6], &before, &after, i, j) {
            drops += 1;
            worst = worst.max(deficit);
        }
    }
    (drops > 0, format!("{drops} of {} zero-fee swaps on a 2e12/2e12 amp-100 pool lowered the exact invariant (ask reserve up to {worst:.3} units short)", offers.len()))
}

/// KF-C12-a: reverse quote truncation on constant-product pools with fees
pub fn c12_a() -> (bool, String) {
    let mut w = world(coin(0, "uom"));
    let u = w.users[0].clone();
    let op = create_pool_op(&w, &u, &["udai", "ueth"], PoolType::ConstantProduct, pool_fee(330, 330, 330, &[]), Some("r"));
    must(w.apply(&op), "pool");
    must(w.apply(&provide_op(&u, "o.r", vec![coin(10u128.pow(22), "udai"), coin(10u128.pow(23), "ueth")], None, None, None, None, None)), "deposit");
    let ask = 88_000_000_000_000_000_000u128;
    let q: pm::ReverseSimulationResponse = w
        .query(&w.pm, &pm::QueryMsg::ReverseSimulation { ask_asset: coin(ask, "ueth"), offer_asset_denom: "udai".into(), pool_identifier: "o.r".into() })
        .expect("reverse");
    let s: pm::SimulationResponse = w
        .query(&w.pm, &pm::QueryMsg::Simulation { offer_asset: coin(q.offer_amount.u128() + 1, "udai"), ask_asset_denom: "ueth".into(), pool_identifier: "o.r".into() })
        .expect("sim");
    let got = s.return_amount.u128();
    (got < ask, format!("reserves 1e22/1e23, fees 9.9%: ReverseSimulation(ask {ask}) quotes {}, offering one unit more returns {got} ({} short)", q.offer_amount, ask.saturating_sub(got)))
}

/// KF-C13-a: unit mismatch in the stableswap swap limit on mixed decimals
pub fn c13_a() -> (bool, String) {
    let mut w = world(coin(0, "uom"));
    let u = w.users[0].clone();
    let op = create_pool_op(&w, &u, &["uusdc", "udai"], PoolType::StableSwap { amp: 10 }, pool_fee(0, 0, 0, &[]), Some("m"));
    must(w.apply(&op), "pool");
    must(w.apply(&provide_op(&u, "o.m", vec![coin(800_000_000_000, "uusdc"), coin(800_000 * 10u128.pow(18), "udai")], None, None, None, None, None)), "deposit");
    // sell 3x the reserve of the 6-decimals token at the default 1% limit
    let offer = 2_400_000_000_000u128;
    let b0 = w.balance(&u, "udai");
    let out = w.apply(&swap_op(&u, "o.m", coin(offer, "uusdc"), "udai", None, None, None));
    let got = w.balance(&u, "udai") - b0;
    let loss = 1.0 - (got as f64 / 1e18) / (offer as f64 / 1e6);
    // and a modest sale of the 18-decimals token is refused even at 50%
    let back = w.apply(&swap_op(&u, "o.m", coin(1_000 * 10u128.pow(18), "udai"), "uusdc", None, Some(Decimal::percent(50)), None));
    (
        (out.is_ok() && loss > 0.02) || !back.is_ok(),
        format!("6/18-decimals stableswap pool: selling 2.4e12uusdc (3x the reserve) at the default 1% limit: {} with a loss of {:.1}% against the peg; selling 1000 udai at a 50% limit: {}", out.short(), loss * 100.0, back.short()),
    )
}

/// KF-C13-b: stableswap deposits with a tolerance are always refused
pub fn c13_b() -> (bool, String) {
    let mut w = world(coin(0, "uom"));
    let u = w.users[0].clone();
    let op = create_pool_op(&w, &u, &["uusdc", "uusdt"], PoolType::StableSwap { amp: 100 }, pool_fee(0, 4, 0, &[]), Some("d"));
    must(w.apply(&op), "pool");
    must(w.apply(&provide_op(&u, "o.d", vec![coin(2_000_000_000_000, "uusdc"), coin(2_000_000_000_000, "uusdt")], None, None, None, None, None)), "deposit");
    let plain = w.snapshot();
    let a = w.apply(&provide_op(&u, "o.d", vec![coin(1_000_000_000, "uusdc"), coin(1_000_000_000, "uusdt")], None, None, None, None, None));
    w.restore(&plain);
    let b = w.apply(&provide_op(&u, "o.d", vec![coin(1_000_000_000, "uusdc"), coin(1_000_000_000, "uusdt")], Some(Decimal::percent(50)), None, None, None, None));
    (a.is_ok() && !b.is_ok(), format!("deposit 1e9/1e9 into a 2e12/2e12 stableswap pool: without tolerance {}, with a 50% tolerance {}", a.short(), b.short()))
}

fn kernel_pool(amp: u64, decs: &[u8], res: &[u128]) -> mantra_dex_std::pool_manager::PoolInfo {
    let denoms: Vec<String> = (0..decs.len()).map(|i| format!("tok{i}")).collect();
    mantra_dex_std::pool_manager::PoolInfo {
        pool_identifier: "o.k".into(),
        asset_denoms: denoms.clone(),
        lp_denom: "factory/x/o.k.LP".into(),
        asset_decimals: decs.to_vec(),
        assets: denoms.iter().zip(res.iter()).map(|(d, r)| coin(*r, d.clone())).collect(),
        pool_type: PoolType::StableSwap { amp },
        pool_fees: pool_fee(0, 0, 0, &[]),
        status: Default::default(),
    }
}

/// KF-C02-c: the imbalance fee takes a dust reserve to zero and D of the fee-adjusted balances
/// (one of them zero) comes out too high: the deposit is minted ~10% more than its share
pub fn c02_c() -> (bool, String) {
    let decs = [18u8, 6, 6, 8];
    let old = [2_487_941_491_770u128, 5_523, 7_861, 1];
    let new = [2_491_734_151_810u128, 5_524, 7_863, 1];
    let amp = 1_000_000_000_000u64;
    let supply = 1_000_000_000_000_000u128;
    let mut info = kernel_pool(amp, &decs, &old);
    info.pool_fees = pool_fee(0, 500, 0, &[]);
    let o: Vec<cosmwasm_std::Coin> = info.assets.clone();
    let n: Vec<cosmwasm_std::Coin> = info.asset_denoms.iter().zip(new.iter()).map(|(d, r)| coin(*r, d.clone())).collect();
    let minted = match pool_manager::helpers::compute_lp_mint_amount_for_stableswap_deposit(&amp, &o, &n, cosmwasm_std::Uint128::new(supply), &info) {
        Ok(Some(m)) => m.u128(),
        other => return (false, format!("the deposit is refused: {other:?}")),
    };
    let d0 = crate::exact::SsState::new(amp, &old, &decs, 0).d_floor();
    let d1 = crate::exact::SsState::new(amp, &new, &decs, 0).d_floor();
    let allowed = num_bigint::BigInt::from(supply) * (&d1 + 2 - (&d0 - 2)) / (&d0 - 2);
    (num_bigint::BigInt::from(minted) > allowed, format!("amp 1e12, 5% swap fee, reserves [2.49e12 udai-like(18), 5523 (6), 7861 (6), 1 (8)], supply 1e15: a deposit of [3792660040, 1, 2, 0] is minted {minted} LP, its share of the exact invariant growth is {allowed}"))
}

/// KF-C19-a: whole-token stopping rule of the swap-path D
pub fn c19_a() -> (bool, String) {
    let res = [28_650_975u128, 88_156_848_568_115_536];
    let info = kernel_pool(85, &[6, 18], &res);
    let offer = 18_003_551u128;
    let r = pool_manager::helpers::compute_swap(&info, &coin(offer, "tok0"), "tok1");
    match r {
        Ok(c) => {
            let st = crate::exact::SsState::new(85, &res, &[6, 18], 6);
            let d0 = st.d_floor();
            let (lo, _) = st.out_bounds(0, 1, &crate::exact::bi(offer), &d0);
            let exact = (lo / &st.unit[1]).to_string().parse::<u128>().unwrap_or(0);
            let got = c.return_amount.u128();
            (got + 1_000_000 < exact, format!("amp 85, a 28.65-token / 0.088-token pool (6/18 decimals): offering 18.0 tokens is quoted {got}, exact output {exact} ({} units short, band ~3e10)", exact.saturating_sub(got)))
        }
        Err(e) => (false, format!("quote failed: {e}")),
    }
}

/// KF-C19-d: fixed-point collapse on dust-sized pools of high-decimals tokens
pub fn c19_d() -> (bool, String) {
    let info = kernel_pool(85, &[18, 18], &[435_140, 565_682]);
    let r = pool_manager::helpers::compute_swap(&info, &coin(4, "tok0"), "tok1");
    match r {
        Ok(c) => (c.return_amount.u128() > 100, format!("amp 85, 18-decimals pool holding 435140/565682 units: offering 4 units is quoted {} (the whole ask reserve; exact output 4)", c.return_amount)),
        Err(e) => (false, format!("quote failed: {e}")),
    }
}

pub fn run_pinned(property: &str, rep: &mut Reporter) {
    let list: Vec<(&str, fn() -> (bool, String))> = match property {
        "C02" => vec![("KF-C02-a", c02_a), ("KF-C02-c", c02_c)],
        "C03" => vec![("KF-C03-a", c03_a)],
        "C06" => vec![("KF-C06-a", c06_a), ("KF-C10-a", c10_a)],
        "C07" => vec![("KF-C07-a", c07_a)],
        "C10" => vec![("KF-C10-a", c10_a), ("KF-C06-a", c06_a)],
        "C11" => vec![("KF-C11-a", c11_a), ("KF-C11-b", c11_b), ("KF-C11-c", c11_c)],
        "C05" => vec![("KF-C11-b", c11_b), ("KF-C11-c", c11_c)],
        "C12" => vec![("KF-C12-a", c12_a)],
        "C13" => vec![("KF-C13-a", c13_a), ("KF-C13-b", c13_b)],
        "C16" => vec![("KF-C16-a", c16_a)],
        "C19" => vec![("KF-C19-a", c19_a), ("KF-C19-d", c19_d)],
        _ => vec![],
    };
    for (id, f) in list {
        match std::panic::catch_unwind(f) {
            Ok((fails, what)) => rep.pinned(id, fails, &what),
            Err(p) => {
                let msg = p.downcast_ref::<String>().cloned().or_else(|| p.downcast_ref::<&str>().map(|s| s.to_string())).unwrap_or_default();
                rep.inconclusive(format!("pinned witness {id} could not be replayed: {msg}"));
            }
        }
    }
}

pub fn all() -> Vec<(&'static str, fn() -> (bool, String))> {
    vec![
        ("KF-C02-a", c02_a),
        ("KF-C03-a", c03_a),
        ("KF-C06-a", c06_a),
        ("KF-C07-a", c07_a),
        ("KF-C10-a", c10_a),
        ("KF-C11-a", c11_a),
        ("KF-C12-a", c12_a),
        ("KF-C13-a", c13_a),
        ("KF-C13-b", c13_b),
        ("KF-C19-a", c19_a),
        ("KF-C19-d", c19_d),
        ("KF-C16-a", c16_a),
        ("KF-C11-b", c11_b),
        ("KF-C02-c", c02_c),
        ("KF-C11-c", c11_c),
    ]
}

/// KF-C16-a: a deposit with a slippage tolerance re-orders the pool's assets against its decimals
pub fn c16_a() -> (bool, String) {
    let mut w = world(coin(0, "uom"));
    let u = w.users[0].clone();
    let op = create_pool_op(&w, &u, &["uusdc", "udai"], PoolType::StableSwap { amp: 100 }, pool_fee(0, 4, 0, &[]), Some("x"));
    must(w.apply(&op), "pool");
    must(w.apply(&provide_op(&u, "o.x", vec![coin(2_000_000_000_000, "uusdc"), coin(2_000_000 * 10u128.pow(18), "udai")], None, None, None, None, None)), "deposit");
    let before = observe(&w).pools["o.x"].clone();
    let q0: Result<pm::SimulationResponse, String> = w.query(&w.pm, &pm::QueryMsg::Simulation { offer_asset: coin(1_000_000_000, "uusdc"), ask_asset_denom: "udai".into(), pool_identifier: "o.x".into() });
    let r = w.apply(&provide_op(&u, "o.x", vec![coin(1, "uusdc"), coin(10u128.pow(12), "udai")], Some(Decimal::one()), None, None, None, None));
    let after = observe(&w).pools["o.x"].clone();
    let q1: Result<pm::SimulationResponse, String> = w.query(&w.pm, &pm::QueryMsg::Simulation { offer_asset: coin(1_000_000_000, "uusdc"), ask_asset_denom: "udai".into(), pool_identifier: "o.x".into() });
    (
        before.info.assets.iter().map(|c| c.denom.clone()).collect::<Vec<_>>() != after.info.assets.iter().map(|c| c.denom.clone()).collect::<Vec<_>>(),
        format!("stableswap pool created as [uusdc(6), udai(18)]: after a dust deposit with slippage tolerance 1.0 ({}) Pools lists the assets as {:?} against decimals {:?}; Simulation of 1000 uusdc answered {:?} before and {:?} after", r.short(), after.info.assets.iter().map(|c| c.denom.clone()).collect::<Vec<_>>(), after.info.asset_decimals, q0.map(|q| q.return_amount.to_string()), q1.map(|q| q.return_amount.to_string())),
    )
}
