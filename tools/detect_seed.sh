#!/bin/bash
# usage: tools/detect_seed.sh <patch.diff> <check ids...>  — applies the patch to /repo, runs the quick checks, reverts
patch=$1; shift
cd /verif
git -C /repo apply $patch || { echo "patch does not apply to /repo"; exit 2; }
for c in "$@"; do
  out=$(./check.sh $c ${TIER:-quick} 2>&1); rc=$?
  echo "$c rc=$rc $(echo "$out" | grep -E 'verdict=' | head -1)"
  echo "$out" | grep -E "VIOLATION|INCONCLUSIVE|HARNESS" | cut -c1-330 | head -4
done
git -C /repo checkout -- .
git -C /repo status --short | head -3
