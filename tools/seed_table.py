#!/usr/bin/env python3
"""prints the markdown table of seeded changes from /verif/seeded/*/meta.json"""
import json, glob
print("| seed | breaks | what it needs to manifest | caught by (quick tier, seed 1) | missed by |")
print("|------|--------|---------------------------|--------------------------------|-----------|")
import re as _re
for d in sorted(glob.glob('/verif/seeded/S*/meta.json'), key=lambda x: int(_re.search(r'/S(\d+)-', x).group(1))):
    m = json.load(open(d))
    c, mi = [], []
    for k, v in m['detection'].items():
        if 'after strengthening' in v or v.startswith('MISSED at first'):
            c.append(f"{k} (after strengthening)")
        elif v.startswith('missed') or v.startswith('rc=0'):
            mi.append(k)
        else:
            c.append(k)
    need = m['needs_to_manifest']
    if len(need) > 170:
        need = need[:167] + '…'
    print(f"| {m['seed']} | {m['breaks_property']} | {need} | {', '.join(c)} | {', '.join(mi) or '—'} |")
