#!/usr/bin/env python3
"""Regenerates /verif/MANIFEST.json from the table below and validates it against the schema."""
import json, sys, os

HERE = os.path.dirname(os.path.abspath(__file__))
VERIF = os.path.dirname(HERE)

# id -> (level category, technique, level text, level note, design ref)
CHECKS = {
 "C01": ("exploration", "runtime invariant monitor: quiescent ledger equality (bank balance vs sum of reserves) after every message of a hostile seeded workload",
         "After every one of thousands of generated messages (accepted, rejected or aborted) on pools that share denoms, the monitor recomputes sum-of-reserves per denom from the Pools query and compares it with the pool manager's real bank balance; the excess must equal exactly the donations and odd-unit residues the harness itself caused, and LP held must equal the minimum locked at first funding. Held-on-observed, not a proof.",
         "cw-multi-test chain + harness token-factory model; finite seeded histories; ledger of donations/odd units is built from the harness's own operations", "DESIGN.md §4 C01"),
}

NOT_YET = "monitor designed in DESIGN.md §4 but not yet built in this commit; not claimed until its check exists and is silent on the unchanged tree"

def main():
    props = [json.loads(l)["id"] for l in open(os.path.join(VERIF, "properties.jsonl"))]
    checks = []
    for pid in props:
        if pid not in CHECKS:
            continue
        cat, tech, text, note, ref = CHECKS[pid]
        checks.append({
            "property_id": pid,
            "quick_cmd": f"./check.sh {pid} quick",
            "thorough_cmd": f"./check.sh {pid} thorough",
            "evidence_file": f"/verif/evidence/{pid}.json",
            "replay_cmd_template": f"VERIF_SEED=<seed from {{path}}> ./check.sh {pid} <tier from {{path}}>   # the workload is deterministic per (property, tier, seed); {{path}} holds the witness",
            "engine": "mdx-check",
            "level_claimed": {"category": cat, "text": text, "design_ref": ref},
            "level_note": note,
            "technique": tech,
        })
    na = [{"property_id": p, "reason": NOT_YET} for p in props if p not in CHECKS]
    m = {
        "version": 1,
        "setup_cmd": "cd /verif/harness && CARGO_NET_OFFLINE=true cargo build --release --offline",
        "hooks": {
            "guard": "none (no source hooks: all observation is at the chain boundary of the test chain — bank/token-factory event log, contract-entry call counter, raw storage snapshots)",
            "enable": "n/a — checks build /repo's contract crates unmodified as path dependencies of /verif/harness",
            "baseline_off_cmd": "cd /repo && cargo test --workspace --no-fail-fast --offline",
            "source_commits": [],
            "add_only": True,
        },
        "engines": [{
            "name": "mdx-check",
            "path": "/verif/harness",
            "serves_properties": [c["property_id"] for c in checks],
            "kind_free_text": "Rust harness: the four real contracts on a cw-multi-test chain with an instrumented bank / token-factory / contract-dispatch boundary, whole-chain snapshot-restore forking, exact big-integer oracles, per-clause runtime monitors, fault injection at the k-th chain call",
        }],
        "checks": checks,
        "notes": "Runtime monitoring family. exit 0 = held on everything observed (possibly with KNOWN-FINDING lines), 1 = VIOLATION, 3 = inconclusive (coverage floor missed / harness error). Known findings: /verif/known_findings.json.",
        "not_applicable": na,
    }
    out = os.path.join(VERIF, "MANIFEST.json")
    json.dump(m, open(out, "w"), indent=1)
    try:
        import jsonschema
        jsonschema.validate(m, json.load(open("/root/.vp/MANIFEST.schema.json")))
        print("MANIFEST.json valid;", len(checks), "checks,", len(na), "not claimed")
    except ImportError:
        print("jsonschema not available; wrote MANIFEST.json unvalidated")

if __name__ == "__main__":
    main()
