#!/usr/bin/env python3
"""Regenerates /verif/MANIFEST.json from the table below and validates it against the schema."""
import json, sys, os

HERE = os.path.dirname(os.path.abspath(__file__))
VERIF = os.path.dirname(HERE)

# id -> (level category, technique, level text, level note, design ref)
NOTE = "chain = cw-multi-test 2.4 + the harness's token-factory model (not the wasm VM, no gas/IBC); finite seeded histories; verdict = held on the executions observed (counts in the evidence file); known findings are matched only by their narrow signatures in /verif/known_findings.json"

def lvl(cat, tech, text, ref):
    return (cat, tech, text, NOTE, ref)

CHECKS = {
 "C01": lvl("exploration", "runtime invariant monitor: quiescent ledger equality (bank balance = sum of reserves + donations + odd units + locked LP) after every message of a hostile seeded workload",
   "After every generated message (accepted, rejected or aborted) on 6+ pools sharing denoms the monitor recomputes the sum of reserves per denom from the Pools query and compares it with the pool manager's real bank balance; the excess must equal exactly what the harness itself donated plus odd-unit residues, and LP held must equal the minimum locked at first funding.", "DESIGN.md §4 C01"),
 "C02": lvl("exploration", "runtime monitors on every deposit/withdrawal transition with exact big-integer share bounds (x*y, exact Curve D) + forked redemption probes",
   "Every LP supply change is attributed to a deposit/withdrawal of that pool; every deposit is checked against the exact proportional-share bound (constant product: cross-multiplied; stableswap: exact D growth with the statement's 2-unit granularity); every withdrawal against reserve x burned / supply; redemption of random LP amounts is tried on forks; a forked drain-and-reseed scenario (every holder leaves, somebody deposits again) on existing and fresh high-fee pools is judged message by message with the same clauses.", "DESIGN.md §4 C02"),
 "C03": lvl("exploration", "runtime monitor: exact invariant comparison (big-integer x*y and Curve D) on every executed hop + forked there-and-back trades",
   "Every hop of every swap, route and single-asset deposit is judged with exact arithmetic from the reserves before/after; forked round trips (1-3 pools, 1-4 return chunks) compare the trader's balance.", "DESIGN.md §4 C03"),
 "C04": lvl("exploration", "offline checker over the recorded bank-event log: per-message slice vs expected multiset, reserve identity, fee = floor(G x share)",
   "For every executed swap/route the bank-event slice recorded at the chain boundary is matched against the exact multiset of movements the swap must cause, every known account's balance change must be explained by it, and every hop must satisfy the reserve identity and the single-gross-amount fee formula.", "DESIGN.md §4 C04"),
 "C05": lvl("exploration", "runtime invariant monitor: custody inequality after every message (complete raw-storage view of positions and farms) + forked drain-everything",
   "After every W-farm message balance(farm manager, d) >= positions + unclaimed budgets for every denom; periodically a fork withdraws every position and closes every farm in random order and each step must succeed with the exact amounts.", "DESIGN.md §4 C05"),
 "C06": lvl("exploration", "reference-model monitor: independent per-epoch weight/claim ledger vs the bank delta of every claim; cumulative per-farm bound",
   "An independent ledger (fed only by the observed effect of position operations, never by the claim path) bounds every claim's payment by the user's weight share of the emissions of the claimed epochs; refusals as 'farm exhausted' are checked against affordability; claimed <= rate x elapsed epochs after every message.", "DESIGN.md §4 C06"),
 "C07": lvl("exploration", "differential monitors: Rewards query vs forked Claim; ledger share equality; one frozen future replayed under three claim schedules",
   "The Rewards query on the forked pre-state must equal each claim's bank delta; each payment must equal the sum of floored weight shares per farm-epoch; a frozen future replayed from one snapshot under three claim schedules must pay the same totals and leave other users' pending rewards identical; a forked many-farms scenario (13 farms on one LP token) is judged by the same clauses.", "DESIGN.md §4 C07"),
 "C08": lvl("exploration", "runtime monitors on every position message (bank-event slice, raw position view) + forked all-senders x boundary-second probes",
   "On real traffic every changed position must belong to the sender, partial closes must conserve the owner's recorded LP and normal withdrawals must pay exactly the recorded amount once; forked probes attempt every action on an existing position from every account and withdraw at unlock-1s/unlock/unlock+1s.", "DESIGN.md §4 C08"),
 "C09": lvl("exploration", "offline checker over the bank-event slice of every emergency withdrawal + time-forked series, against an exact rational penalty oracle",
   "Every emergency exit (workload and forked at 6+ times per position) is read off the bank-event slice: bounded by 90%, equal to the documented formula within a derived rounding slack, non-increasing in time after closing, zero once unlocked, recipients and shares as stated, never more than the recorded amount paid out.", "DESIGN.md §4 C09"),
 "C10": lvl("exploration", "runtime invariant monitor over all weight snapshots (raw storage) + exact rational curve oracle + forked sweeps",
   "After every message total weight >= sum of users' weights for the running and the pending epoch (equal while no pieces), no weight without open position; every fresh position weight is compared with the exact Lagrange curve, its bounds and pairwise monotonicity.", "DESIGN.md §4 C10"),
 "C11": lvl("exploration", "offline checker over the bank-event slice of every farm action + forked exact-payment probes + quiescent limit invariant",
   "Every accepted farm creation/expansion/close must move exactly the expected tokens (fee to the collector, refunds to the right owners, remainders of auto-closed farms) and record the expected farm; exact payments are probed per fee configuration; unexpired farms per LP token never exceed the limit (also with the limit raised beyond the lister's page size, and after a farm claimed down to exactly zero has been closed); transfers are compared netted per party.", "DESIGN.md §4 C11"),
 "C12": lvl("exploration", "differential monitor: quote on the forked pre-state vs execution of the same trade",
   "For every generated swap and simple route the Simulation / SimulateSwapOperations answer on the forked pre-state is compared with the executed result (return, all fee figures, receiver balance); routes are re-executed under several minimum_receive / receiver settings and must deliver the quoted amount each time; ReverseSimulation+1 is checked on constant-product pools.", "DESIGN.md §4 C12"),
 "C13": lvl("exploration", "independent exact-rational predicate vs the observed accept/reject decision, with boundary bands; forked monotonicity probes; state equality on rejection",
   "Each protection's decision on real traffic is compared with an independently evaluated predicate outside a rounding band; forked probes test exact-proportion deposits and monotonicity in the tolerance; every executed route is re-run with minimum_receive = delivered (must execute) and delivered + 1 (must fail as a whole); every refused trade must leave the chain state identical.", "DESIGN.md §4 C13"),
 "C14": lvl("fault_enumeration", "forked equivalence run (single-asset deposit vs manual two-step) + failure injected at each internal chain call + buffer-key lookup after every message",
   "Every single-asset deposit is replayed from the same state as swap-half-then-deposit and all effects compared; for sampled accepted ones a failure is injected at each of its internal chain calls (contract entries, replies, bank, token factory) and the state must be bit-identical; the temporary buffer key is looked up after every message.", "DESIGN.md §4 C14"),
 "C15": lvl("exploration", "role x message x ownership-history x funds matrix executed completely on forks of up to 288 prepared states and compared with the table derived from the statement",
   "Every cell of the privileged-action matrix (47 message variants x 13 sender roles x 9 ownership histories x 2 funds settings) is executed on forks of prepared states (position open/closed/unlocked x farm running/not started/ended/expired x overlapping roles x re-configured delegate x 3 configurations: 288 in the thorough tier, a covering sample of ~27 in quick); decisions must equal authorised-by-the-statement AND no funds AND valid-in-this-state, rejected cells must leave the chain state identical and accepted cells may only change the storage the message names.", "DESIGN.md §4 C15"),
 "C16": lvl("exploration", "independent well-formedness/payment predicate vs every creation attempt; forked payment matrix; first-seen immutability invariant after every message",
   "Every creation attempt is compared with an independent predicate; a forked matrix of token-factory fee configurations x fund variants checks accept <=> exact and the bank slice; identifiers/LP denoms stay distinct and creation-time parameters unchanged through all histories.", "DESIGN.md §4 C16"),
 "C17": lvl("exploration", "differential monitor: all 8 switch combinations x every operation path vs the untoggled reference fork",
   "On forks of reached states every switch combination is applied (in one message or field by field in random order) and every path is executed on the switched pool and on another pool; decision and effects must equal the reference outcome AND the needed switches; toggle messages sometimes also restate other configuration fields.", "DESIGN.md §4 C17"),
 "C18": lvl("exploration", "reference-model monitor: u128 arithmetic vs epoch-manager answers on boundary/extreme times and ids",
   "Many epoch-manager instances with random configurations are queried at genesis-1/genesis/boundaries +-1/near the u64 limits and every answer compared with u128 arithmetic; overflowing cases must fail, never wrap; configuration validation incl. non-owner.", "DESIGN.md §4 C18"),
 "C19": lvl("exploration", "reference-model monitor: exact big-integer Curve solution vs the production quote and mint-D functions over a very wide input range",
   "compute_swap and compute_d_with_pool_info are called at their public boundary on millions of generated pool states and compared with the exact solution of the invariant (band from the statement) for amplifications 1..u64::MAX, 0..18 decimals and reserves up to and beyond the 128-bit normalisation edge; outputs never exceed the reserve; failures are counted per cause.", "DESIGN.md §4 C19"),
 "C20": lvl("fault_enumeration", "state-equality monitor after every rejected message + failure injected at each successive internal chain call of sampled accepted messages of every kind",
   "After every rejected/aborted message of both workloads the whole chain storage must be bit-identical; for sampled accepted messages of every kind each internal chain call (contract entry, reply, bank, token factory) is failed in turn on a fork: the message must be rejected with identical state, except the tolerated blocked refund of a closing farm, whose fork must equal the unblocked run modulo the refund.", "DESIGN.md §4 C20"),
}

NOT_YET = "monitor designed in DESIGN.md §4 but not yet built in this commit; not claimed until its check exists and is silent on the unchanged tree"

def main():
    props = [json.loads(l)["id"] for l in open(os.path.join(VERIF, "properties.jsonl"))]
    checks = []
    for pid in props:
        if pid not in CHECKS:
            continue
        cat, tech, text, note, ref = CHECKS[pid]
        checks.append({
            "property_id": pid,
            "quick_cmd": f"./check.sh {pid} quick",
            "thorough_cmd": f"./check.sh {pid} thorough",
            "evidence_file": f"/verif/evidence/{pid}.json",
            "replay_cmd_template": f"VERIF_SEED=<seed from {{path}}> ./check.sh {pid} <tier from {{path}}>   # the workload is deterministic per (property, tier, seed); {{path}} holds the witness",
            "engine": "mdx-check",
            "level_claimed": {"category": cat, "text": text, "design_ref": ref},
            "level_note": note,
            "technique": tech,
        })
    na = [{"property_id": p, "reason": NOT_YET} for p in props if p not in CHECKS]
    m = {
        "version": 1,
        "setup_cmd": "cd /verif/harness && CARGO_NET_OFFLINE=true cargo build --release --offline",
        "hooks": {
            "guard": "none (no source hooks: all observation is at the chain boundary of the test chain — bank/token-factory event log, contract-entry call counter, raw storage snapshots)",
            "enable": "n/a — checks build /repo's contract crates unmodified as path dependencies of /verif/harness",
            "baseline_off_cmd": "cd /repo && cargo test --workspace --no-fail-fast --offline",
            "source_commits": [],
            "add_only": True,
        },
        "engines": [{
            "name": "mdx-check",
            "path": "/verif/harness",
            "serves_properties": [c["property_id"] for c in checks],
            "kind_free_text": "Rust harness: the four real contracts on a cw-multi-test chain with an instrumented bank / token-factory / contract-dispatch boundary, whole-chain snapshot-restore forking, exact big-integer oracles, per-clause runtime monitors, fault injection at the k-th chain call",
        }],
        "checks": checks,
        "notes": "Runtime monitoring family. exit 0 = held on everything observed (possibly with KNOWN-FINDING lines), 1 = VIOLATION, 3 = inconclusive (coverage floor missed / harness error). Known findings: /verif/known_findings.json.",
        "not_applicable": na,
    }
    out = os.path.join(VERIF, "MANIFEST.json")
    json.dump(m, open(out, "w"), indent=1)
    try:
        import jsonschema
        jsonschema.validate(m, json.load(open("/root/.vp/MANIFEST.schema.json")))
        print("MANIFEST.json valid;", len(checks), "checks,", len(na), "not claimed")
    except ImportError:
        print("jsonschema not available; wrote MANIFEST.json unvalidated")

if __name__ == "__main__":
    main()
