#!/bin/bash
# applies every behaviour-preserving patch under seeded/benign to the repo (REPO, default /repo), runs the checks of the contracts it touches, reverts
cd "$(dirname "$0")/.."
POOL="C01 C02 C03 C04 C12 C13 C14 C16 C17 C19 C20"; FARM="C05 C06 C07 C08 C09 C10 C11 C14 C15 C18 C20"
fail=0
for b in B1 B2 B5 B6; do echo "== $b"; out=$(tools/benign_check.sh $PWD/seeded/benign/$b/patch.diff $POOL 2>&1 | grep -v WARN); echo "$out"; echo "$out" | grep -qE "rc=[^0]|VIOLATION|INCONCLUSIVE" && fail=1; done
for b in B3 B7 B8; do echo "== $b"; out=$(tools/benign_check.sh $PWD/seeded/benign/$b/patch.diff $FARM 2>&1 | grep -v WARN); echo "$out"; echo "$out" | grep -qE "rc=[^0]|VIOLATION|INCONCLUSIVE" && fail=1; done
echo "== B4"; out=$(tools/benign_check.sh $PWD/seeded/benign/B4/patch_on_99ae0ba.diff $FARM 2>&1 | grep -v WARN); echo "$out"; echo "$out" | grep -qE "rc=[^0]|VIOLATION|INCONCLUSIVE" && fail=1
exit $fail
