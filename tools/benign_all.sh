#!/bin/bash
# applies every behaviour-preserving patch under seeded/benign to the repo (REPO, default /repo), runs the checks of the contracts it touches, reverts.
# A patch that was re-based after a later fix: commit touched the same lines is kept next to the original (patch_on_<commit>.diff); the first one that applies is used.
cd "$(dirname "$0")/.."
REPO=${REPO:-/repo}
POOL="C01 C02 C03 C04 C12 C13 C14 C16 C17 C19 C20"; FARM="C05 C06 C07 C08 C09 C10 C11 C14 C15 C18 C20"
fail=0
pick() { for f in $(ls -r $PWD/seeded/benign/$1/patch_on_*.diff 2>/dev/null) $PWD/seeded/benign/$1/patch.diff; do git -C $REPO apply --check $f 2>/dev/null && { echo $f; return; }; done; }
run() { b=$1; shift; p=$(pick $b); echo "== $b ($(basename "${p:-none}"))"; if [ -z "$p" ]; then echo "no patch of $b applies to the current tree"; fail=1; return; fi
  out=$(tools/benign_check.sh $p "$@" 2>&1 | grep -v WARN); echo "$out"; echo "$out" | grep -qE "rc=[^0]|VIOLATION|INCONCLUSIVE" && fail=1; }
for b in B1 B2 B5 B6 B9 B10; do run $b $POOL; done
for b in B3 B4 B7 B8 B11 B12; do run $b $FARM; done
exit $fail
