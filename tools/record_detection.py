#!/usr/bin/env python3
"""usage: record_detection.py <seed-name> '<json object: check -> result string>' [note]"""
import sys, json
name = sys.argv[1]; det = json.loads(sys.argv[2]); note = sys.argv[3] if len(sys.argv) > 3 else None
p = f"/verif/seeded/{name}/meta.json"
m = json.load(open(p))
m["detection"].update(det)
m["what_i_ran"] = "tools/detect_seed.sh <patch.diff> <checks…>: git -C /repo apply; ./check.sh Cxx quick (VERIF_SEED=1); git -C /repo checkout -- ."
if note: m["note"] = note
json.dump(m, open(p, "w"), indent=1)
print(name, m["detection"])
