#!/bin/bash
# usage: tools/verify_seed.sh <Cxx> [name]  — confirms a seeded change in its scratch worktree /tmp/mut/<Cxx>:
#   (a) with patch+demo: whole suite passes except the demo test(s); (b) without the patch the demo passes.
id=$1; wt=${WT:-/tmp/mut/$id}; out=${OUT:-/tmp/mut/$id-out}
export CARGO_TARGET_DIR=$wt/target CARGO_NET_OFFLINE=true
cd $wt || exit 2
git reset -q --hard HEAD; git clean -fdq -e target
git apply $out/demo.diff || { echo "demo.diff does not apply"; exit 2; }
git apply $out/patch.diff || { echo "patch.diff does not apply"; exit 2; }
demos=$(grep -E '^\+\s*(pub )?fn [a-zA-Z0-9_]+\(' $out/demo.diff | sed -E 's/.*fn ([a-zA-Z0-9_]+)\(.*/\1/' | sort -u | tr '\n' ' ')
echo "demo functions: $demos"
cargo test --workspace --no-fail-fast --offline > $out/verify_with.log 2>&1
p=$(grep -E "^test result" $out/verify_with.log | awk '{p+=$4; f+=$6} END {print p" passed "f" failed"}')
echo "WITH patch: $p"; grep -E "^test .* FAILED" $out/verify_with.log | head
git apply -R $out/patch.diff
cargo test --workspace --no-fail-fast --offline > $out/verify_without.log 2>&1
p=$(grep -E "^test result" $out/verify_without.log | awk '{p+=$4; f+=$6} END {print p" passed "f" failed"}')
echo "WITHOUT patch (demo only applied): $p"; grep -E "^test .* FAILED" $out/verify_without.log | head
git apply $out/patch.diff
