#!/bin/bash
# usage: tools/area_seed.sh <area> <A|B> <checks...> : verify the seed in its worktree, then run the checks against it
a=$1; ab=$2; shift 2
WT=/tmp/mut/$a OUT=/tmp/mut/$a-out/$ab tools/verify_seed.sh $a$ab 2>&1 | grep -v WARN | grep -E "WITH|FAILED|apply" | head -5
tools/detect_seed.sh /tmp/mut/$a-out/$ab/patch.diff "$@" 2>&1 | grep -v WARN | cut -c1-260 | awk '/rc=/{print} /VIOLATION|INCONC/{c++; if(c<=2)print} /rc=/{c=0}'
