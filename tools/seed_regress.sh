#!/bin/bash
# usage: tools/seed_regress.sh [seed-name-prefix...]  — for every filed seed whose patch applies to the repo
# (REPO, default /repo): apply it, run the quick check of the property it breaks, expect rc=1, revert.
# Prints one line per seed; exit 1 if a seed that applies is no longer caught by its own property's check.
REPO=${REPO:-/repo}
cd "$(dirname "$0")/.."
fail=0
for d in seeded/S*/; do
  name=$(basename $d)
  if [ $# -gt 0 ]; then m=0; for p in "$@"; do [[ $name == $p* ]] && m=1; done; [ $m = 1 ] || continue; fi
  prop=$(python3 -c "import json;print(json.load(open('$d/meta.json'))['breaks_property'])" 2>/dev/null)
  pf=$PWD/$d/patch.diff; [ -f $PWD/$d/patch_on_head.diff ] && pf=$PWD/$d/patch_on_head.diff   # re-based after a later fix: commit touched the same lines
  if ! git -C $REPO apply --check $pf 2>/dev/null; then echo "$name $prop SKIP (patch does not apply to the current tree)"; continue; fi
  git -C $REPO apply $pf
  out=$(./check.sh $prop quick 2>&1); rc=$?
  git -C $REPO checkout -- . 2>/dev/null; git -C $REPO reset -q --hard HEAD
  v=$(echo "$out" | grep -E 'verdict=' | head -1 | sed -E 's/.*(verdict=[a-z_]+).*(violations=[0-9]+).*/\1 \2/')
  if [ $rc = 1 ]; then echo "$name $prop CAUGHT $v"; else echo "$name $prop NOT-CAUGHT rc=$rc $v"; fail=1; fi
done
exit $fail
