#!/usr/bin/env python3
import json, sys, glob, jsonschema
schema = json.load(open("/root/.vp/EVIDENCE.schema.json"))
bad = 0
for f in sorted(glob.glob("/verif/evidence/*.json")):
    try:
        jsonschema.validate(json.load(open(f)), schema)
        print("ok ", f)
    except Exception as e:
        bad += 1
        print("BAD", f, str(e)[:300])
sys.exit(1 if bad else 0)
