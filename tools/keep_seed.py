#!/usr/bin/env python3
"""usage: keep_seed.py <Cxx> <seed-name> <needs...>   — files a confirmed seeded change under /verif/seeded/<seed-name>/"""
import sys, os, shutil, json, re
pid, name = sys.argv[1], sys.argv[2]
needs = " ".join(sys.argv[3:])
src = os.environ.get("SRC", f"/tmp/mut/{pid}-out")
dst = f"/verif/seeded/{name}"
os.makedirs(dst, exist_ok=True)
for f in ("patch.diff", "demo.diff", "notes.md"):
    shutil.copy(os.path.join(src, f), os.path.join(dst, f))
def tail(p):
    try:
        t = open(p).read()
        res = [l for l in t.splitlines() if l.startswith("test result")]
        ps = sum(int(l.split()[3]) for l in res); fs = sum(int(l.split()[5]) for l in res)
        failed = [l for l in t.splitlines() if re.match(r"^test .* FAILED", l)]
        return {"passed": ps, "failed": fs, "failing_tests": failed[:5]}
    except Exception as e:
        return {"error": str(e)}
meta = {
    "seed": name, "breaks_property": os.environ.get("BREAKS", pid[:3]), "needs_to_manifest": needs,
    "produced_by": "fresh sub-agent given only the property text and a scratch worktree of /repo",
    "confirmed_by_me": {
        "how": f"tools/verify_seed.sh {pid} in the scratch worktree /tmp/mut/{pid} (reset to HEAD, demo.diff + patch.diff applied, full workspace suite; then patch reverted, suite again)",
        "suite_with_patch_and_demo": tail(os.path.join(src, "verify_with.log")),
        "suite_with_demo_only": tail(os.path.join(src, "verify_without.log")),
    },
    "detection": {},
}
mp = os.path.join(dst, "meta.json")
if os.path.exists(mp):
    old = json.load(open(mp)); meta["detection"] = old.get("detection", {})
json.dump(meta, open(mp, "w"), indent=1)
print("filed", dst)
