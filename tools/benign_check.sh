#!/bin/bash
# usage: tools/benign_check.sh <patch.diff> [checks...] — applies a behaviour-preserving patch to /repo, runs quick checks, reverts.
# any VIOLATION / non-zero exit here is a false alarm of the machinery.
patch=$1; shift
checks=${@:-C01 C02 C03 C04 C05 C06 C07 C08 C09 C10 C11 C12 C13 C14 C15 C16 C17 C18 C19 C20}
cd "$(dirname "$0")/.."
git -C ${REPO:-/repo} apply $patch || { echo "patch does not apply"; exit 2; }
for c in $checks; do
  out=$(./check.sh $c quick 2>&1); rc=$?
  echo "$c rc=$rc $(echo "$out" | grep -E 'verdict=' | head -1 | cut -c1-120)"
  echo "$out" | grep -E "VIOLATION|INCONCLUSIVE|HARNESS|panicked|error\[" | cut -c1-300 | head -3
done
git -C ${REPO:-/repo} reset -q --hard HEAD; git -C ${REPO:-/repo} status --short | head -3
