import sys,subprocess
pid=sys.argv[1]
avoid={
'C01':"making the swapped half of an odd single-asset deposit round up",
'C02':"taking the constant-product LP share of the wrong asset (min by denom) on two-asset deposits",
'C03':"allowing a routed hop whose output denom equals its input denom",
'C04':"deducting the extra fees from the ask reserve as well",
'C05':"paying one penalty share per farm instead of per unique farm owner",
'C06':"the claim's weight-history sync taking the earliest instead of the latest snapshot",
'C07':"`break` instead of `continue` when a farm has not started yet",
'C08':"ignoring the value of the emergency_unlock flag (Some(false) treated as an emergency exit)",
'C09':"applying the 90% cap before the remaining-lock fraction; and paying one share per farm instead of per owner",
'C10':"subtracting the unclamped recomputed weight from the contract total on close",
'C11':"listing only a default page of farms when checking the per-LP farm limit",
'C12':"computing the constant-product reverse quote by applying the commission to the offer side",
'C13':"applying the 50% cap only to the default slippage",
'C14':"letting the contract-as-sender bypass the owner check of an existing position in the second leg",
'C15':"skipping the owner check of pool-manager UpdateConfig once ownership is renounced",
'C16':"rejecting only adjacent duplicate asset denoms",
'C17':"dropping earlier switch changes of a toggle message when the last switch restates the current value",
'C18':"accepting an update that re-submits the stored, already elapsed genesis",
'C19':"accepting a non-decreasing Newton iterate as converged",
'C20':"sending the refunds of auto-closed expired farms as plain messages instead of reply-on-error sub-messages",
}
base=subprocess.run(['python3','/tmp/mut/make_prompt.py',pid],capture_output=True,text=True).stdout
base=base.replace(f"/tmp/mut/{pid}-out", f"/tmp/mut/{pid}b-out").replace(f"/tmp/mut/{pid}", f"/tmp/mut/{pid}b").replace(f"/tmp/mut/{pid}bb", f"/tmp/mut/{pid}b")
extra=f"""

IMPORTANT — this is a second round. Another engineer already produced this change for the same property: "{avoid[pid]}". Do NOT produce that change or a close variant of it. Choose a DIFFERENT mechanism and, if possible, a different clause of the property statement and a different function/file among the relevant ones. Prefer a defect whose effect is quantitatively small or rare (e.g. off by one unit or one epoch or one second, only for particular amounts/decimals/orderings, or only on a failure path), or that needs two code sites to cooperate, so that it is genuinely hard to notice — while still being demonstrable by a deterministic test."""
print(base+extra)
