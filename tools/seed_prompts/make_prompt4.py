import sys,subprocess
pid=sys.argv[1]
src=open('/verif/tools/seed_prompts/make_prompt3.py').read()
ns={}
exec(src.split("exec(open(")[0].split("pid=sys.argv[1]")[1], ns)   # avoid2
avoid2=ns['avoid2']
ns1={}
exec(open('/verif/tools/seed_prompts/make_prompt2.py').read().split("base=subprocess")[0].split("pid=sys.argv[1]")[1], ns1)
avoid=ns1['avoid']
avoid3={
'C01':"withdraw_liquidity deducting refunds from reserves by position after zero-amount refunds were filtered out",
'C02':"treating a deposit into a drained stableswap pool (supply <= minimum liquidity) as a first deposit",
'C03':"capping the amplification factor at 1e6 in the D computation only",
'C04':"the router collecting protocol fees per denom in a map with insert (overwriting) instead of adding",
'C05':"expand_farm resetting claimed_amount to zero",
'C06':"compute_address_weights starting from the first later snapshot instead of zero",
'C07':"calculate_rewards listing farms with the default page size (first ten only)",
'C08':"close_position capping the unlock time by the current max_unlocking_duration",
'C09':"is_farm_expired measuring from the end epoch instead of end epoch + 1",
'C10':"reconcile_user_state wiping the weight history only when the latest weight is zero",
'C11':"expand_farm recomputing the end epoch from the start epoch and the total budget",
'C12':"the router sending exactly minimum_receive instead of the real output",
'C13':"checking minimum_receive against a simulation done before the swaps",
'C14':"the reply passing swap_max_slippage as the second leg's liquidity_max_slippage",
'C15':"close_farm accepting any sender once the farm is expired",
'C16':"comparing attached funds and expected fees pairwise with zip (extra coin sorting last accepted)",
'C17':"the router checking swaps_enabled of the previous pool of each pair (last hop unchecked)",
'C18':"query_epoch computing start times in whole days",
'C19':"compute_d_with_pool_info dropping reserves whose normalisation overflows (filter_map)",
'C20':"sending penalty shares of an emergency withdrawal as reply-on-error sub-messages",
}
base=subprocess.run(['python3','/tmp/mut/make_prompt.py',pid],capture_output=True,text=True).stdout
base=base.replace(f"/tmp/mut/{pid}-out", f"/tmp/mut/{pid}d-out").replace(f"/tmp/mut/{pid}", f"/tmp/mut/{pid}d").replace(f"/tmp/mut/{pid}dd", f"/tmp/mut/{pid}d")
extra=f"""

IMPORTANT — this is a fourth round. Other engineers already produced these three changes for the same property: (1) "{avoid[pid]}"; (2) "{avoid2[pid]}"; (3) "{avoid3[pid]}". Do NOT produce any of them or a close variant. Choose a DIFFERENT mechanism, and prefer a clause of the property statement and a function/file that none of the three touches (read ALL the listed files and the helpers, state and query code they call before choosing; queries count too where the property mentions them). Strongly prefer a defect that is hard to notice: quantitatively small (one unit / one epoch / one second / one weight unit), or visible only for particular amounts, decimals, orderings, identifiers, configurations or histories (after a config or ownership change, for the second of two actions in the same block or epoch, on a failure path, when two features are combined, at a boundary value such as exactly the maximum / minimum / zero), or needing state built up over several earlier messages. It must still be demonstrable by a deterministic test. If after a serious search every candidate is caught by the existing suite, say so and deliver the best surviving one even if it overlaps a clause already used."""
print(base+extra)
