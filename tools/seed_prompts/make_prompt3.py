import sys,subprocess,json,glob
pid=sys.argv[1]
avoid2={
'C01':"sending protocol + extra fees to the fee collector while the reserve only drops by return + protocol + burn (extra fees counted twice)",
'C02':"gating withdrawals by the deposits switch",
'C03':"rounding the constant-product return up at the 1e-18 boundary",
'C04':"flooring the extra fees on their sum instead of individually",
'C05':"not checking the attached farm asset when the creation fee is zero",
'C06':"claim looping over an LP denom twice when the user's positions alternate LP tokens",
'C07':"truncating the weight share to 18 decimals before multiplying by the emission",
'C08':"allowing a new position to take the identifier of a closed, not yet withdrawn one",
'C09':"computing the penalty split over only the first page (ten) of farms",
'C10':"crediting the weight of an on-behalf position expansion to the sender instead of the owner",
'C11':"skipping the farm-asset sum check when exactly the fee amount is attached",
'C12':"the route quote skipping hops that report zero slippage",
'C13':"checking the deposit slippage tolerance against the post-deposit ratio",
'C14':"allowing single-asset deposits into pools with more than two assets",
'C15':"dropping the owner check on emergency position withdrawals",
'C16':"skipping the paid-amount check when the pool creation fee is zero",
'C17':"moving the deposits gate into the multi-asset branch only (single-asset deposits ungated)",
'C18':"CurrentEpoch deriving its start time from the block time and leaking sub-second nanoseconds",
'C19':"scaling the stableswap ask balance by 10^(18-ask) instead of 10^(max-ask)",
'C20':"grouping refunds of auto-closed farms per owner into one multi-coin transfer",
}
exec(open('/verif/tools/seed_prompts/make_prompt2.py').read().split("base=subprocess")[0].split("pid=sys.argv[1]")[1])
base=subprocess.run(['python3','/tmp/mut/make_prompt.py',pid],capture_output=True,text=True).stdout
base=base.replace(f"/tmp/mut/{pid}-out", f"/tmp/mut/{pid}c-out").replace(f"/tmp/mut/{pid}", f"/tmp/mut/{pid}c").replace(f"/tmp/mut/{pid}cc", f"/tmp/mut/{pid}c")
extra=f"""

IMPORTANT — this is a third round. Other engineers already produced these two changes for the same property: (1) "{avoid[pid]}"; (2) "{avoid2[pid]}". Do NOT produce either of them or a close variant. Choose a DIFFERENT mechanism, a different clause of the property statement and a different function/file among the relevant ones (read ALL the listed files and the functions they call before choosing). Strongly prefer a defect that is hard to notice: its effect is quantitatively small (off by one unit / one epoch / one second / one weight unit), or it shows only for particular amounts, decimals, orderings, identifiers, configurations or histories (e.g. only after a config change, only for the second of two actions in the same block or epoch, only on a failure path, only when two features are combined), or it needs state built up over several earlier messages. It must still be demonstrable by a deterministic test."""
print(base+extra)
