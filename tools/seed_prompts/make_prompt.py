import json,sys
pid=sys.argv[1]
p=[json.loads(l) for l in open('/verif/properties.jsonl') if json.loads(l)['id']==pid][0]
files=', '.join(p['anchors']['files'])
farm = pid in ('C05','C06','C07','C08','C09','C10','C11')
if pid=='C18':
    where="contracts/epoch-manager/tests/ (integration tests; see tests/common.rs)"
elif pid in ('C15','C20'):
    where="contracts/pool-manager/src/tests/integration/ (TestingSuite in contracts/pool-manager/src/tests/suite.rs; register the module in the mod.rs there) or contracts/farm-manager/tests/integration/ (suite in contracts/farm-manager/tests/common/suite.rs), whichever fits your change"
elif farm:
    where="contracts/farm-manager/tests/integration/ (following the style of the existing tests and the TestingSuite in contracts/farm-manager/tests/common/suite.rs; register the module in tests/integration/mod.rs)"
else:
    where="contracts/pool-manager/src/tests/integration/ (following the style of the existing tests and the TestingSuite in contracts/pool-manager/src/tests/suite.rs; register the module in the mod.rs there)"
hints={
 'C02':"a particular deposit shape (skewed / partial asset set on a 3-4 asset stableswap pool / mixed decimals), a withdrawal of a particular size, a first deposit vs later deposits, a single-asset deposit",
 'C03':"particular reserves/decimals/amplification, a particular offer size, zero-fee pools, a hop inside a route or inside a single-asset deposit",
 'C04':"a particular fee configuration (several extra fees, burn fee, fees that floor to zero), a receiver different from the sender, a route of 3+ hops or one that passes through pools sharing a denom",
 'C05':"a particular interleaving of farm/position/claim operations, a farm whose reward token is an LP token, a partial close, an emergency withdrawal with active farms, an expiry",
 'C06':"a particular interleaving of position changes, epoch advances and claims by two or more users (possibly with until_epoch), a farm expansion or a farm that ends mid-span",
 'C07':"several farms on one LP token or several LP tokens per user, a claim split with until_epoch, weight changes between claims, a claim in the epoch a farm starts or ends",
 'C08':"a particular sender (contract owner, farm owner, the pool manager path), the exact boundary second of the unlock time, a partial close of a particular amount, an explicit vs generated identifier",
 'C09':"a particular time after closing, a particular base penalty or unlocking duration, amounts where rounding matters, a particular set of active/future/expired farms with shared owners",
 'C10':"positions built in pieces, partial closes, amounts where the fractional multiplier rounds, particular durations, an emergency withdrawal of an open position",
 'C11':"a particular fee configuration (fee in the reward denom vs another denom, overpaid fee), an expansion near the farm's end, a close by the contract owner, an automatic close on expiry when another user creates a farm, the per-LP farm limit",
 'C12':"a stableswap pool with particular decimals, a route through pools sharing denoms, fees that floor differently, very large or very small offers",
 'C13':"a boundary value where slippage equals the tolerance, a tolerance above 50% or omitted, a belief price with particular decimals, a minimum_receive on a multi-hop route, a particular deposit ratio",
 'C14':"odd amounts, a lock with an existing position identifier, a receiver different from the sender, a failure at an internal step (inner swap rejected, farm manager rejecting), a particular slippage setting",
 'C15':"one particular (contract, message, sender role, ownership state) combination, e.g. a pending or former owner, attached funds, one config field among many",
 'C16':"a particular combination of pool-creation fee and token-factory fee denoms, an over/under payment in one coin only, a particular identifier form, a later config update or deposit that alters stored pool parameters",
 'C17':"one particular path (a middle hop of a route, the second leg of a single-asset deposit, a locked deposit) and one particular switch combination, or a toggle that affects another pool",
 'C18':"exact boundary seconds, genesis equal to now, very large ids or times near u64 limits, a config update",
 'C19':"particular amplification / number of assets / decimals mix / skew, or a failure path (non-convergence) that settles on a wrong answer",
 'C20':"a failure at one particular internal call (a specific bank send, mint, burn or sub-call) of one particular message kind, or the blocked-refund path of a farm close affecting something else",
}
hint=hints.get(pid,"a particular multi-step sequence, an unusual input, a failed inner step, or two cooperating sites that each look fine alone")
print(f"""You are helping to test a verification framework by producing ONE realistic, subtle defect ("seeded change") in a Rust/CosmWasm code base.

Working directory (a scratch git worktree of the repository MANTRA-Chain/mantra-dex): /tmp/mut/{pid}
You may read and edit files ONLY under /tmp/mut/{pid} and write deliverables under /tmp/mut/{pid}-out. Do NOT look at /verif or /repo or other /tmp/mut/* directories. There is no network. Build offline: always run cargo as
  cd /tmp/mut/{pid} && CARGO_TARGET_DIR=/tmp/mut/{pid}/target CARGO_NET_OFFLINE=true cargo test --workspace --no-fail-fast --offline
(the first build takes a few minutes; the suite has ~158 tests and must pass).

The semantic property your change must BREAK:

{p['id']} — {p['title']}. {p['statement']}
(It is meant to hold {p['quantifier']['text']}.)

Relevant code: {files}.

Requirements for the change:
1. It is a small source change to the contracts (not to tests) of the kind a developer could plausibly make by mistake or in a refactor (a few lines).
2. The code still compiles and the ENTIRE existing test suite still passes with the change (run it and confirm; report the pass count).
3. It breaks the property above, but NOT in a way ordinary use would expose at once: it should need something specific to manifest — for example {hint}.
4. Provide a demonstration: a new Rust integration test under {where} that FAILS with your change and PASSES on the original code. Verify both (use `git stash` or apply/revert your patch to check the original).

Deliverables (write these files):
- /tmp/mut/{pid}-out/patch.diff : `git diff` of ONLY the contract source change (no test files)
- /tmp/mut/{pid}-out/demo.diff : `git diff` of ONLY the added demonstration test (test files / mod.rs)
- /tmp/mut/{pid}-out/notes.md : what the change is, why the existing tests do not notice, what exactly is needed for it to manifest (the concrete sequence/inputs), the commands you ran and their results (test counts with and without the change, demo fails/passes).
Leave the worktree with BOTH diffs applied at the end. Keep your final answer short: summarise the change and confirm the three verifications (suite passes with change; demo fails with change; demo passes without).""")
