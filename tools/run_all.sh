#!/bin/bash
# usage: tools/run_all.sh <quick|thorough> <seed...>   — runs every check, prints one line each
cd "$(dirname "$0")/.."
tier=${1:-quick}; shift
seeds=${@:-1}
for s in $seeds; do
  for c in C01 C02 C03 C04 C05 C06 C07 C08 C09 C10 C11 C12 C13 C14 C15 C16 C17 C18 C19 C20; do
    start=$(date +%s)
    out=$(VERIF_SEED=$s ./check.sh $c $tier 2>&1); rc=$?
    end=$(date +%s)
    line=$(echo "$out" | grep -E "verdict=" | head -1)
    echo "seed=$s rc=$rc t=$((end-start))s $line"
    if [ $rc -ne 0 ]; then echo "$out" | grep -E "VIOLATION|INCONCLUSIVE|HARNESS" | cut -c1-400 | head -5; fi
  done
done
