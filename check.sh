#!/bin/bash
# usage: ./check.sh <Cxx> <quick|thorough>
# Rebuilds the harness against /repo's current working tree (path dependencies), then runs
# the monitor for one property.  exit 0 = held on everything observed, 1 = VIOLATION,
# 3 = inconclusive, other = harness/build error.
set -u
cd "$(dirname "$0")/harness" || exit 4
export CARGO_NET_OFFLINE=true
if ! cargo build --release --offline --quiet 2> ../build.log; then
  echo "HARNESS-ERROR: build failed (see /verif/build.log)"; tail -30 ../build.log
  exit 4
fi
exec ./target/release/mdx-check check "$1" --tier "${2:-quick}"
